#!/bin/bash
# Nothing to build or install: the framework is pure Python run by /venv/bin/python
# against /repo's working tree. Just verify that imports work.
cd "$(dirname "$0")"
PYTHONPATH=/repo:$(pwd) /venv/bin/python -c "import mosaik, mosaik_api_v3, vlab.loop, vlab.sims, vlab.build, vlab.monitors; print('vlab ok, mosaik', mosaik.__version__)"
