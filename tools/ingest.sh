#!/bin/bash
# tools/ingest.sh <PID> <K> [check ids...]   -- validate a sub-agent's mutant and keep it under seeded/
# 1. demo passes on pristine HEAD, 2. patch applies, suite passes, demo fails, 3. run our checks on it.
set -u
pid="$1"; k="$2"; shift 2
src=${WT:-/tmp/wt-$pid}/out
dst=/verif/seeded/$pid-${TAG:-}m$k
wt=/tmp/iw-$pid-$k-$$
[ -f "$src/mutant$k.diff" ] || { echo "no $src/mutant$k.diff"; exit 9; }
git -C /repo worktree add --detach "$wt" HEAD -q || exit 9
mkdir -p "$wt/out"; cp "$src/demo$k.py" "$wt/out/"
( cd "$wt" && PYTHONPATH="$wt" timeout 300 /venv/bin/python out/demo$k.py > /tmp/iw-demo-clean-$$.log 2>&1 ); rc_clean=$?
if ! git -C "$wt" apply "$src/mutant$k.diff"; then echo "$pid-m$k: PATCH DOES NOT APPLY"; git -C /repo worktree remove --force "$wt"; exit 8; fi
( cd "$wt" && PYTHONPATH="$wt" timeout 300 /venv/bin/python out/demo$k.py > /tmp/iw-demo-mut-$$.log 2>&1 ); rc_mut=$?
( cd "$wt" && PYTHONPATH="$wt" timeout 900 /venv/bin/python -m pytest -q -p no:cacheprovider --timeout=900 tests > /tmp/iw-suite-$$.log 2>&1 ); rc_suite=$?
suite_line=$(tail -1 /tmp/iw-suite-$$.log)
git -C /repo worktree remove --force "$wt"
echo "$pid-m$k: demo_clean_rc=$rc_clean demo_mutant_rc=$rc_mut suite_rc=$rc_suite ($suite_line)"
ok=0; [ $rc_clean -eq 0 ] && [ $rc_mut -ne 0 ] && [ $rc_suite -eq 0 ] && ok=1
mkdir -p "$dst"
cp "$src/mutant$k.diff" "$dst/patch.diff"; cp "$src/demo$k.py" "$dst/demo.py"; cp "$src/mutant$k.md" "$dst/notes.md" 2>/dev/null
res=$(cd /verif && VERIF_SCALE="${VERIF_SCALE:-1}" tools/run_mutant.sh "$dst/patch.diff" "$@" 2>&1)
echo "$res" | cut -c1-300
python3 - "$dst" "$pid" "$k" "$ok" "$rc_clean" "$rc_mut" "$rc_suite" "$suite_line" "$res" <<'PY'
import json, sys, os
dst, pid, k, ok, rc_clean, rc_mut, rc_suite, suite_line, res = sys.argv[1:10]
meta = {"id": os.path.basename(dst), "breaks": pid, "origin": "independent sub-agent (given only the property text and a scratch worktree)",
        "confirmed": bool(int(ok)),
        "what_i_ran": {"demo_on_pristine_rc": int(rc_clean), "demo_with_patch_rc": int(rc_mut), "test_suite_with_patch_rc": int(rc_suite),
                       "test_suite_summary": suite_line,
                       "checks": [l[:200] for l in res.splitlines() if l.strip()]},
        "needs_to_manifest": "see notes.md"}
mp = os.path.join(dst, "meta.json")
if os.path.exists(mp):
    old = json.load(open(mp)); old.update(meta); meta = old
json.dump(meta, open(mp, "w"), indent=1)
PY
rm -f /tmp/iw-*-$$.log
