#!/usr/bin/env python3
"""Own mutation catalogue (DESIGN section 7): each entry is a (file, old, new) replacement against /repo HEAD.
Writes /verif/seeded/own-<name>/patch.diff + meta.json (without touching /repo: uses a scratch worktree)."""
import json, os, subprocess, sys, tempfile
HERE = os.path.dirname(os.path.dirname(os.path.abspath(__file__)))
M = [
 ("has-passed-ge", ["C01", "C03", "C04"], "mosaik/progress.py",
  "        if needs_to_pass and time_at_dest > target:", "        if needs_to_pass and time_at_dest >= target:",
  "has_passed satisfied when progress only *reaches* the target: a consumer may start while its producer's step at the same time is in flight"),
 ("skip-newer-step-set", ["C02", "C05"], "mosaik/simmanager.py",
  "        if is_earlier:\n            self.newer_step.set()", "        if is_earlier and not self.next_steps[1:]:\n            self.newer_step.set()",
  "wake-up for an earlier step only when it is the only scheduled step"),
 ("drop-schedule-dedup", ["C02"], "mosaik/simmanager.py",
  "        if tiered_time in self.next_steps:\n            return tiered_time\n", "",
  "no dedup of scheduled steps: several triggers for one time give duplicated steps"),
 ("max-advance-off-by-one", ["C07"], "mosaik/scheduler.py",
  "    return min([*ancs_next_steps, *own_next_step, until + 1]) - 1", "    return min([*ancs_next_steps, *own_next_step, until])",
  "max_advance one too large when an ancestor's next step bounds it"),
 ("max-advance-ignore-inflight", ["C07"], "mosaik/scheduler.py",
  "        if anc_sim.current_step is not None and anc_sim is not sim:", "        if False and anc_sim.current_step is not None and anc_sim is not sim:",
  "in-flight ancestors ignored by get_max_advance only (reverts half of the F1 fix)"),
 ("skip-lazy-wait", ["C10"], "mosaik/scheduler.py",
  "    if lazy_stepping:\n        for suc_sim, adapt in sim.successors.items():", "    if lazy_stepping and len(sim.successors) < 2:\n        for suc_sim, adapt in sim.successors.items():",
  "lazy wait skipped for producers with two or more consumers"),
 ("lazy-wait-off-by-one", ["C10"], "mosaik/scheduler.py",
  "            lazy_target = TieredTime(next_step.time, *([0] * (len(adapt) - 1)))", "            lazy_target = TieredTime(next_step.time - 1, *([0] * (len(adapt) - 1)))",
  "lazy wait one step too permissive"),
 ("buffer-lt", ["C03", "C04"], "mosaik/simmanager.py",
  "        while len(self.input_queue) > 0 and self.input_queue[0][0] <= step:", "        while len(self.input_queue) > 0 and self.input_queue[0][0] < step:",
  "timed input buffer hands out values one step late"),
 ("output-for-oldest", ["C03", "C04"], "mosaik/simmanager.py",
  "            if data_time <= time and (newest is None or data_time > newest):", "            if data_time <= time and (newest is None or data_time < newest):",
  "get_output_for returns the oldest cached entry instead of the newest"),
 ("self-step-until-guard", ["C02", "C05"], "mosaik/scheduler.py",
  "        if next_step_time < world.until:\n            next_step_tiered_time", "        if next_step_time <= world.until:\n            next_step_tiered_time",
  "self-step scheduled at == until"),
 ("connect-no-initial-data-check", ["C11"], "mosaik/scenario.py",
  "        if (time_shifted or weak) and dest_attr in dest.model_mock.measurement_inputs:", "        if time_shifted and dest_attr in dest.model_mock.measurement_inputs:",
  "weak connection into non-trigger input without initial data accepted"),
 ("outset-and-wrong", ["C12"], "mosaik/in_or_out_set.py",
  "    def __rand__(self, rother: FrozenSet[E]) -> FrozenSet[E]:\n        return rother - self._set", "    def __rand__(self, rother: FrozenSet[E]) -> FrozenSet[E]:\n        return rother & self._set",
  "frozenset & OutSet computes the wrong set"),
 ("revert-F14", ["C05"], "mosaik/scheduler.py",
  "            if sim.next_steps and sim.next_steps[0] < await_time:\n                await_time = sim.next_steps[0]", "            if sim.next_steps:\n                await_time = sim.next_steps[0]",
  "waits for a step scheduled at or after until (reverts ada0e6a)"),
 ("revert-F5-shift", ["C03", "C04"], "mosaik/scheduler.py",
  "    min_cache_time = min(s.last_step.time for s in world.sims.values()) - max_shift", "    min_cache_time = min(s.last_step.time for s in world.sims.values())",
  "cache pruning ignores time shifts again"),
 ("revert-F6", ["C03", "C04"], "mosaik/scheduler.py",
  "        input_data,\n        persistent_inputs,\n    )", "        input_data,\n        sim.persistent_inputs,\n    )",
  "persistent input memory aliased again"),
 ("cycle-weak-always-resolves", ["C06"], "mosaik/scenario.py",
  "            if all(t == 0 for t in delay.tiers):", "            if all(t == 0 for t in delay.tiers[:1]) and all(t == 0 for t in delay.tiers):",
  "no-op control (equivalent mutant; must NOT be reported)"),
 ("trigger-delay-gt", ["C01", "C02"], "mosaik/scheduler.py",
  "                dest_sim.schedule_step(sim.output_time + delay)", "                dest_sim.schedule_step(sim.last_step + delay)",
  "triggered step scheduled from the step time instead of the output time (future output times ignored)"),
 ("loop-guard-gt", ["C09"], "mosaik/scheduler.py",
  "                t >= world.max_loop_iterations for t in sim.current_step.tiers[1:]", "                t > world.max_loop_iterations for t in sim.current_step.tiers[1:]",
  "loop guard allows one sub-step too many"),
 ("next-step-equal-allowed", ["C13"], "mosaik/scheduler.py",
  "        if next_step_time <= sim.current_step.time:", "        if next_step_time < sim.current_step.time:",
  "next step == current time silently accepted"),
 ("set-data-no-auth", ["C16"], "mosaik/simmanager.py",
  "                self._assert_async_requests(src_sim, self.sim)\n                inputs = src_sim.inputs_from_set_data", "                inputs = src_sim.inputs_from_set_data",
  "set_data without authorisation check"),
 ("evenly-shuffle-once", ["C18"], "mosaik/util.py",
  "        for src, dest in zip(src_set[pos:], dest_set):\n            connect(src, dest, *attrs)\n            connected.add(dest)\n        pos += dest_size", "        for src, dest in zip(src_set[pos:], dest_set):\n            connect(src, dest, *attrs)\n            connected.add(dest)\n        pos += dest_size - (1 if dest_size > 3 and pos else 0)",
  "evenly: overlapping slices connect a source twice for larger destination sets"),
 ("v2-setup-done", ["C15"], "mosaik/adapters.py",
  "    if version < [2, 2]:\n        proxy = V2ToV1Adapter(proxy)", "    if version < [2, 1]:\n        proxy = V2ToV1Adapter(proxy)",
  "setup_done sent to 2.1 simulators"),
 ("rt-strict-continue", ["C17"], "mosaik/scheduler.py",
  "        delta = rt_passed - (rt_factor * sim.last_step.time)\n        if delta > 0:", "        delta = rt_passed - (rt_factor * (sim.last_step.time + 1))\n        if delta > 0:",
  "too-slow check one slot too lenient"),
 ("weak-tier-index", ["C01", "C02", "C09", "C11"], "mosaik/scenario.py",
  "        list_tiers[cutoff - 1] = weak", "        list_tiers[-1] = weak",
  "weak connection increments the deepest destination tier instead of the closest common group's"),
 ("interval-add-ext", ["C08"], "mosaik/tiered_time.py",
  "        if self.cutoff >= other.cutoff:\n            ext = other.ext", "        if self.cutoff > other.cutoff:\n            ext = other.ext",
  "TieredInterval.__add__ wrong branch when cutoffs are equal"),
 ("output-time-label", ["C02", "C01"], "mosaik/scheduler.py",
  "        if output_time == sim.current_step.time:\n            output_tiered_time = sim.current_step", "        if output_time == sim.current_step.time and False:\n            output_tiered_time = sim.current_step",
  "outputs at the step's own time lose their sub-time"),
 ("pulled-needs-cache-only", ["C03", "C04"], "mosaik/scenario.py",
  "        is_pulled = src_sim.outputs is not None and src.is_persistent(src_attr)", "        is_pulled = src_sim.outputs is not None",
  "events are pulled from the cache too (repeated until overwritten) when the cache is on"),
 ("initial-event-tiers", ["C02", "C05"], "mosaik/scenario.py",
  "        sim.next_steps = [TieredTime(time) + sim.from_world_time]", "        sim.next_steps.append(TieredTime(time) + sim.from_world_time)",
  "set_initial_event appends without heap order / keeps old schedule"),
 ("async-input-delay", ["C16", "C01"], "mosaik/scenario.py",
  "        dest_sim.input_delays[src_sim] = delay\n", "        dest_sim.input_delays.setdefault(src_sim, delay)\n",
  "async_requests does not lower an existing (shifted) input delay"),
 ("successors-to-wait-dropped", ["C16"], "mosaik/scheduler.py",
  "    for suc_sim, adapt in sim.successors_to_wait_for.items():\n        futures.append(suc_sim.progress.has_reached(next_step + adapt))", "    for suc_sim, adapt in sim.successors_to_wait_for.items():\n        if lazy_stepping:\n            futures.append(suc_sim.progress.has_reached(next_step + adapt))",
  "the wait for async agents is only done with lazy stepping"),
 ("set-data-overwrite-entity", ["C16"], "mosaik/simmanager.py",
  "                inputs = src_sim.inputs_from_set_data.setdefault(eid, {})", "                inputs = src_sim.inputs_from_set_data[eid] = src_sim.inputs_from_set_data.get(eid, {}) if len(attributes) > 1 else {}",
  "a set_data call with one attribute drops the other pending attributes of that entity"),
 ("group-path-sibling", ["C11", "C06"], "mosaik/scenario.py",
  "            ascent = src_groups.index(dest)", "            ascent = [g.depth for g in src_groups].index(dest.depth)",
  "groups identified by depth again (siblings equal)"),
 ("cycle-check-skip-self", ["C06"], "mosaik/scenario.py",
  "        for sim in self.sims.values():\n            for pred, delay in sim.input_delays.items():\n                sim_descs[pred][sim] = (delay, [pred, sim])", "        for sim in self.sims.values():\n            for pred, delay in sim.input_delays.items():\n                if pred is not sim:\n                    sim_descs[pred][sim] = (delay, [pred, sim])",
  "self-connections are not seen by the cycle check"),
 ("connect-src-attr-check", ["C11", "C12"], "mosaik/scenario.py",
  "        if src_attr not in src.model_mock.output_attrs:", "        if src_attr not in src.model_mock.output_attrs and src_attr not in src.model_mock.input_attrs:",
  "source attribute check also accepts input attributes (any_inputs models accept everything)"),
 ("parse-attrs-hybrid-default", ["C12"], "mosaik/scenario.py",
  "        default_measurements = None if 'trigger' in model_desc else inputs\n        default_events = None", "        default_measurements = None\n        default_events = None if 'trigger' in model_desc or 'non-trigger' in model_desc else inputs",
  "hybrid default flipped: inputs are triggers by default"),
 ("v3-adapter-kwargs", ["C15"], "mosaik/adapters.py",
  "                request = (\"step\", args[0:2], kwargs)", "                request = (\"step\", args[0:2] if self._out.meta.get(\"api_version\", \"1\") != \"2.3\" else args, kwargs)",
  "max_advance still sent to old simulators"),
 ("explicit-version-ignored", ["C15"], "mosaik/adapters.py",
  "    if explicit_version and version != explicit_version:", "    if explicit_version and version[0] != explicit_version[0]:",
  "only the major version is compared with the configured api_version"),
 ("stop-only-first", ["C14"], "mosaik/scenario.py",
  "            for sim in self.sims.values():\n                self.loop.run_until_complete(sim.stop())", "            for sim in self.sims.values():\n                try:\n                    self.loop.run_until_complete(sim.stop())\n                except Exception:\n                    break",
  "shutdown stops at the first simulator whose stop fails"),
 ("rt-set-event-until", ["C17"], "mosaik/simmanager.py",
  "        if event_time < self.world.until:", "        if event_time <= self.world.until:",
  "event at == until scheduled without warning"),
 ("randomly-cap", ["C18"], "mosaik/util.py",
  "        if connects[dest] >= max_connects:", "        if connects[dest] > max_connects:",
  "max_connects exceeded by one"),
 ("otime-check-cache-only", ["C13"], "mosaik/scheduler.py",
  "        if sim.last_step.time > output_time:\n            raise SimulationError(", "        if sim.outputs is not None and sim.last_step.time > output_time:\n            raise SimulationError(",
  "output-time validation only with the cache on (sub-agent's bonus mutant, re-created)"),
 ("shift-keeps-subtime", ["C09"], "mosaik/scenario.py",
  "        cutoff = 1\n    return TieredInterval(*list_tiers, cutoff=cutoff, pre_length=pre_length)", "        pass\n    return TieredInterval(*list_tiers, cutoff=cutoff, pre_length=pre_length)",
  "reverts 3e5c08a: time-shifted connections keep the source's sub-time"),
 ("first-model-kinds", ["C03", "C02"], "mosaik/scenario.py",
  "    def is_persistent(self, attr: Attr) -> bool:\n        return attr in self.model_mock.measurement_outputs", "    def is_persistent(self, attr: Attr) -> bool:\n        return attr in next(iter(self.model_mock._factory.models.values())).measurement_outputs",
  "persistent/non-persistent classification taken from the simulator's first model for all its entities"),
 ("first-model-trigger", ["C02", "C03"], "mosaik/scenario.py",
  "    def triggered_by(self, attr: Attr) -> bool:\n        return attr in self.model_mock.event_inputs", "    def triggered_by(self, attr: Attr) -> bool:\n        return attr in next(iter(self.model_mock._factory.models.values())).event_inputs",
  "trigger classification taken from the simulator's first model for all its entities"),
]

def main():
    wt = tempfile.mkdtemp(prefix="ownmut-")
    os.rmdir(wt)
    subprocess.run(["git", "-C", "/repo", "worktree", "add", "--detach", wt, "HEAD", "-q"], check=True)
    try:
        for name, props, f, old, new, why in M:
            p = os.path.join(wt, f)
            s = open(p).read()
            if s.count(old) != 1:
                print("SKIP", name, "pattern count", s.count(old)); continue
            open(p, "w").write(s.replace(old, new))
            d = subprocess.run(["git", "-C", wt, "diff", "--", "mosaik"], capture_output=True, text=True).stdout
            subprocess.run(["git", "-C", wt, "checkout", "--", "mosaik"], check=True)
            out = os.path.join(HERE, "seeded", "own-" + name)
            os.makedirs(out, exist_ok=True)
            open(os.path.join(out, "patch.diff"), "w").write(d)
            meta = {"id": "own-" + name, "breaks": props, "origin": "own mutation catalogue (DESIGN 7)", "what": why}
            mp = os.path.join(out, "meta.json")
            if os.path.exists(mp):
                old_meta = json.load(open(mp)); old_meta.update(meta); meta = old_meta
            json.dump(meta, open(mp, "w"), indent=1)
            print("ok", name)
    finally:
        subprocess.run(["git", "-C", "/repo", "worktree", "remove", "--force", wt])

if __name__ == "__main__":
    main()
