#!/usr/bin/env python3
"""Rewrites DESIGN.md section 10.5 (between the markers) from seeded/*/meta.json and seeded/RESULTS.md."""
import json, os, re
HERE = os.path.dirname(os.path.dirname(os.path.abspath(__file__)))
rows = {}
for line in open(os.path.join(HERE, "seeded", "RESULTS.md")):
    if line.startswith("| ") and not line.startswith("| seeded") and not line.startswith("|---"):
        c = [x.strip() for x in line.strip().strip("|").split("|")]
        if len(c) >= 4:
            rows[c[0]] = c
out = []
out.append("### 10.5 Seeded defects: which checks catch which changes\n")
out.append("Ten rounds of fresh sub-agents (round 1: 2 changes for each of the 18 properties; round 2: 3 \"harder\" "
           "changes for 15 properties; rounds 3 and 4: two-site changes; round 5: 3 changes each for the contract-style "
           "properties, told to avoid the obvious site; round 6: 3 changes each for the scheduler properties, told which "
           "mechanisms earlier rounds had already used; round 7: the contract-style and fault properties again, with the list "
           "of mechanisms to avoid; round 8: the same plus C16 and C17, with longer lists; round 9: the scheduler properties once more; round 10: all 18 properties, 3 changes each, every agent told the mechanisms used before for its property) got only the text of one property and a scratch "
           "worktree; every kept change was re-verified here (patch applies to the current /repo HEAD, the 233 tests pass "
           "with it, the demonstration fails with it and passes without it) and lives in `seeded/<id>/` (`patch.diff`, "
           "`demo.py`, `notes.md`, `meta.json`). `seeded/own-*` is the own catalogue of section 7. `tools/run_mutant.sh` "
           "runs checks against a scratch worktree with a patch applied (`VERIF_REPO`), nothing is ever applied to "
           "/repo; `tools/mutant_matrix.py` produced `seeded/RESULTS.md`, from which this table is generated.\n")
out.append("Checks that were *strengthened because they missed a change* (each miss is a gap that was closed, never a "
           "loosened check): C15 (old simulator failing inside `step()`; same-named classes with other signatures; extra "
           "methods whose names are substrings of API names; several starts from one `sim_config` entry; stop exactly "
           "once), C18 (`evenly=True` with a finite `max_connects`), C16 (`set_data` onto an attribute that also has a "
           "persistent connection; time-shifted + async in one `connect()`; sub-steps triggered over a weak connection; "
           "label-level ordering), C13 (values at/after `until`; the last step), C14 (exception classes; old-API "
           "simulators in the catalogue; never-awaited coroutines), C06 (pure async and shift+async combinations), C04 "
           "(writing agents, `None` values, outcome differences, analysis of remote runs), C11 (cache off; hierarchical "
           "entities), C09 (loops closed over time; loops left via a future output time), C17 (`set_event` beyond "
           "`until` outside real-time mode; blocking steps); round 5: C15 (three-component version strings such as 2.1.0), "
           "C18 (one-shot iterables as source set of `connect_many_to_one`), C11 (children lists with several model "
           "types, grandchildren), C08 (the derived operators `<=`, `>=`, `!=`), C13 (real-time mode with a simulator "
           "that queues steps for itself through `set_event()` before the malformed reply); round 6: C03 (persistent outputs "
           "announced for a later time, constant offset). After round 5 C14 got a second, generated in-process class, which "
           "found F28; round 7: C15 (classes from a factory: same module and qualified name, other signatures), C11 (input kinds "
           "from type defaults and `any_inputs`, one `initial_data` dict reused, one source attribute to two destination "
           "attributes), C12 (several starts from one `sim_config` entry with different descriptions, old API versions with a "
           "declared type), C14 (an agent asking several sources in one asynchronous `get_data`), C06 (`run()` a second time on "
           "a rejected world); round 8: C11 (`weak=True` together with `time_shifted`; a refused connection after an accepted one in the "
           "other direction, followed by a run), C12 (`init()` returning a customised copy instead of `self.meta`; one module-level "
           "model table started as one type, then as another), C16 (agents that also feed the controlled simulator over a "
           "time-shifted connection), C17 (event receivers with a schedule of their own, events set from inside `step()`, a "
           "`setup_done` that takes time), C14 (`CancelledError` as exception class; an in-process source that never answers an "
           "agent's asynchronous request), C18 (attribute-less calls; the caller's destination list judged after the call); round 9: C10 (real-time mode must not "
           "switch lazy stepping off: every fifth run of C10 and every seventh of C01-C03 now runs in real-time mode on the "
           "virtual clock). round 10: see 10.4b (C11 C16 C15 C18 C14 C06 and the generator). A change whose only observable effect is the internal assertion 'cannot progress backwards' is "
           "caught by C05 (listed under 'also' in its meta.json), whatever property its author aimed at.\n")
out.append("| seeded defect | origin | checks run -> verdict | what it is |")
out.append("|---|---|---|---|")
n = caught = 0
for d in sorted(os.listdir(os.path.join(HERE, "seeded"))):
    mp = os.path.join(HERE, "seeded", d, "meta.json")
    if not os.path.exists(mp):
        continue
    m = json.load(open(mp))
    r = rows.get(d)
    verd = r[3] if r else "(not in the last matrix run; see meta.json)"
    what = m.get("what")
    if not what:
        notes = os.path.join(HERE, "seeded", d, "notes.md")
        what = ""
        if os.path.exists(notes):
            txt = [l.strip() for l in open(notes) if l.strip()]
            what = txt[0].lstrip("# ").strip() if txt else ""
    origin = "sub-agent" if "sub-agent" in m.get("origin", "") else "own"
    out.append(f"| {d} | {origin} | {verd} | {what[:150].replace('|', '/')} |")
    n += 1
    caught += 1 if "**caught**" in verd else 0
out.append(f"\n{caught} of {n} kept changes are caught by at least one check in the last matrix run. Not caught: own "
           "equivalent/benign controls (`own-cycle-weak-always-resolves`, `own-self-step-until-guard`, "
           "`own-interval-add-ext`, `own-initial-event-tiers`, `own-stop-only-first`) whose change cannot alter any "
           "observable behaviour on the current tree; and `C14-r10m2`, which was caught when it was ingested and has since been "
           "neutralised by the repair c091d82 (its own demonstration passes with the patch on the current tree).\n")
block = "\n".join(out)
p = os.path.join(HERE, "DESIGN.md")
s = open(p).read()
B, E = "<!-- seeded:begin -->", "<!-- seeded:end -->"
if B in s:
    s = s[:s.index(B)] + B + "\n" + block + "\n" + E + s[s.index(E) + len(E):]
else:
    s = s.rstrip("\n") + "\n\n" + B + "\n" + block + "\n" + E + "\n"
open(p, "w").write(s)
print("section written:", n, "rows,", caught, "caught")
