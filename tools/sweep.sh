#!/bin/bash
# tools/sweep.sh <tier> <seed> [<seed> ...]  -- runs all 18 checks for each seed without touching evidence/; prints non-HELD results
cd "$(dirname "$0")/.."
tier="$1"; shift
for s in "$@"; do
  for p in C01 C02 C03 C04 C05 C06 C07 C08 C09 C10 C11 C12 C13 C14 C15 C16 C17 C18; do
    VERIF_SEED=$s VERIF_EVIDENCE_DIR=/tmp/sweep-ev VERIF_OUT_DIR=/tmp/sweep-out-$p ./check $p --tier $tier > /tmp/sweep-$p-$s.log 2>&1
    rc=$?
    if [ $rc -ne 0 ]; then echo "seed=$s $p rc=$rc $(tail -n 2 /tmp/sweep-$p-$s.log | cut -c1-300)"; else rm -f /tmp/sweep-$p-$s.log; rm -rf /tmp/sweep-out-$p; fi
  done
  echo "seed $s done"
done
rm -rf /tmp/sweep-ev
