#!/bin/bash
# tools/run_mutant.sh <patch.diff> <ID> [<ID> ...]
# Runs the given checks (quick tier) against a scratch worktree of /repo with the patch applied.
# Nothing in /repo or in /verif/evidence is touched.  Prints one line per check.
set -u
patch="$(readlink -f "$1")"; shift
tag=$(basename "$(dirname "$patch")")-$(basename "$patch" .diff)-$$
wt=/tmp/mw-$tag
git -C /repo worktree add --detach "$wt" HEAD -q || exit 9
if ! git -C "$wt" apply "$patch"; then echo "PATCH DOES NOT APPLY: $patch"; git -C /repo worktree remove --force "$wt"; exit 8; fi
out=/tmp/mo-$tag; mkdir -p "$out"
cd "$(dirname "$0")/.."
for id in "$@"; do
  VERIF_REPO="$wt" VERIF_EVIDENCE_DIR="$out/evidence" VERIF_OUT_DIR="$out" VERIF_SEED="${VERIF_SEED:-0}" \
     ./check "$id" --tier "${TIER:-quick}" > "$out/$id.log" 2>&1
  rc=$?
  echo "$id rc=$rc $(grep -E '^(VIOLATION|HELD|INCONCLUSIVE)' "$out/$id.log" | head -1 | cut -c1-60) | $(grep -B1 '^VIOLATION' "$out/$id.log" | head -1 | cut -c1-220)"
done
git -C /repo worktree remove --force "$wt"
rm -rf "$out"
