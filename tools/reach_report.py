#!/usr/bin/env python3
"""tools/reach_report.py [evidence dir]  -- statements / branch arms of mosaik/*.py that NO check's workload reached
(intersection of the per-check `coverage.code_reach` blocks).  Reading aid for widening generators; decides nothing."""
import json, os, sys, glob
d = sys.argv[1] if len(sys.argv) > 1 else os.path.join(os.path.dirname(os.path.dirname(os.path.abspath(__file__))), "evidence")
def expand(rs):
    out = set()
    for r in rs:
        a, _, b = r.partition("-")
        out.update(range(int(a), int(b or a) + 1))
    return out
def ranges(nums):
    out = []; a = b = None
    for n in sorted(nums):
        if a is None: a = b = n
        elif n == b + 1: b = n
        else: out.append(f"{a}-{b}" if b != a else f"{a}"); a = b = n
    if a is not None: out.append(f"{a}-{b}" if b != a else f"{a}")
    return out
un, one, both_by = {}, {}, {}
n = 0
for f in sorted(glob.glob(os.path.join(d, "C*.json"))):
    cr = json.load(open(f))["coverage"].get("code_reach", {})
    if "files" not in cr: continue
    n += 1
    pid = os.path.basename(f)[:3]
    for name, e in cr["files"].items():
        u = expand(e.get("unreached_lines", []))
        un[name] = u if name not in un else un[name] & u
        o = expand(e.get("conditionals_one_arm_only", [])) | (expand(e.get("unreached_lines", [])))
        one[name] = o if name not in one else one[name] & o
print(f"{n} evidence files with code_reach")
for name in sorted(un):
    print(f"{name}: unreached by every check: {' '.join(ranges(un[name])) or '-'}")
    oa = one[name] - un[name]
    print(f"{name}: conditional lines never seen with both arms in any single check: {' '.join(ranges(oa)) or '-'}")
