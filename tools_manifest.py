#!/usr/bin/env python3
"""Regenerates MANIFEST.json from the table below (keeps it valid at all times)."""
import json, os
HERE = os.path.dirname(os.path.abspath(__file__))
BASE = "cd /repo && /venv/bin/python -m pytest -ra -q -p no:cacheprovider --timeout=900 --continue-on-collection-errors"
CHECKS = {
 "C01": ("exploration", "A", "runtime monitoring: ordering oracle over recorded step/get_data events under controlled reply schedules",
         "Real scheduler driven by scripted simulators whose replies complete in harness-chosen order (random/PCT/starve/priority/batch schedules); per-connection ordering predicate over model labels. Held on the executions listed in the evidence, nothing more.", "3/C01"),
 "C02": ("exploration", "A", "runtime monitoring: demanded-set bookkeeping (exactly-once, order, range) over recorded step calls",
         "Every step() call is matched online against the set of demanded labels built only from observed replies; empty at normal return. Held on the explored executions.", "3/C02"),
 "C03": ("exploration", "A", "runtime monitoring: reference data-flow model over the recorded history with unique values",
         "inputs of every step compared with a model evaluated over all earlier get_data replies; unique values make lost/duplicated/stale/not-yet-due distinct. One open known finding (sub-time data path) matched by mechanism; flat profiles cannot reach it.", "3/C03"),
 "C05": ("exploration", "A", "runtime monitoring: outcome of run() with exact deadlock and livelock detection in a controlled loop",
         "Normal return required for every accepted scenario under every explored schedule; deadlock is exact (loop idle, nothing in flight, no timer). One open known finding (incomparable delays).", "3/C05"),
 "C07": ("exploration", "A", "runtime monitoring: causal provenance of steps inside promised max_advance windows",
         "Every step in a promised window must be caused (transitively) by the simulator's own steps at or after the promise.", "3/C07"),
 "C04": ("exploration", "A", "runtime monitoring: differential oracle over per-simulator (time, inputs) sequences of many runs of one scenario (schedules incl. bounded-exhaustive DFS, start order, lazy/cache/debug, remote processes)",
         "No model: any difference between two runs of one scenario (sequences, or a run failing where the reference completes) is a violation. One open known finding (sub-time data path) classified per differing step; flat scenarios cannot reach it and amplify any difference.", "3/C04"),
 "C06": ("exploration", "C", "runtime monitoring: contract on World.run() (ScenarioError vs. first step, named cycle) against a brute-force cycle enumerator",
         "All connection multigraphs (plain, shifted, weak, weak+shifted, async, shifted+async) on 1-2 simulators x 5 group placements exhaustively, 3 simulators exhaustively in the thorough tier, 4-6 sampled.", "5/C06"),
 "C08": ("exploration", "C", "runtime contracts on the real TieredInterval/TieredTime operators against a functional model, exhaustive over bounded shapes; contracts on the minimum delays the real setup caches for generated scenarios",
         "Every ordered pair of equal shape (length <= 3, tiers 0..2/3): trichotomy, antisymmetry, agreement of < with the pointwise order for every departure time, transitivity, action law, associativity.", "5/C08"),
 "C11": ("exploration", "C", "runtime monitoring: decision-table contract on World.connect() plus starved-source runs; group scoping via step-set monitors with path-identified groups",
         "Exhaustive decision table over attr kinds x connection kinds x initial data x placements (every third case also with async_requests=True in the refused call); rejected pairs followed by a run that shows no data-flow/wait; equally named models with other attributes in 12 call orders; with-blocks of World.group() left by exceptions; sibling-group scenarios under the C02/C01 monitors.", "5/C11"),
 "C12": ("exploration", "C", "runtime contracts on parse_attrs / world.start() / OutSet operators against a membership model, exhaustive over a small universe",
         "All descriptions over a 2 (thorough: 3) name universe x any_inputs x 3 types; world.start()+connect() through a meta-mirroring simulator; all operand pairs of the set algebra.", "5/C12"),
 "C18": ("exploration", "C", "runtime monitoring: counting oracle over recorded World.connect calls of the bulk helpers",
         "All admissible sizes up to 12x6 (thorough 24x10) x caps x 50 (500) seeds, plus requests just beyond the capacity (must be refused), sources inside the destination set, and a sample on the real World.", "5/C18"),
 "C09": ("exploration", "A", "runtime monitoring: loop-length arithmetic over model labels, outcome and error text of run()",
         "All (N, M) around the bound for canonical 2/3-member weak loops in 5 placements under rotating schedules, non-settling loops, generated multi-weak scenarios (envelope only).", "3/C09"),
 "C13": ("fault_enumeration", "A", "runtime monitoring with fault injection: every malformed reply value x step index x simulator position; expected rejection naming the simulator",
         "Enumerates (simulator, step index, malformed value) over generated scenarios; checks error text, no further request to the offender, consistent step set of everybody.", "3/C13"),
 "C14": ("fault_enumeration", "B", "runtime monitoring with fault injection over real simulator processes: every request index x {process exit, exception, connection abort, process exit while idle}; containment checklist (processes, finalize counts, pending tasks at loop.close(), ResourceWarnings)",
         "Enumerates every (simulator, request index, kind) of a small catalogue with remote/in-process mixes, old-API simulators and in-flight asynchronous requests; 'stop' observed on the wire; hangs judged only if reproduced twice. Second part (engine A): generated scenarios in-process under the controlled loop, every request index failing early and late with other simulators in flight, tasks pending at loop.close() snapshotted. Third part: ordinary (non-generator) in-process simulators failing with 9 exception classes incl. StopIteration at every request index. One open known finding (connection reset while idle: the installed mosaik_api_v3 channel signals nothing), matched only by the witness of where every task waits.", "4/C14"),
 "C15": ("exploration", "B", "runtime monitoring: requests recorded by stub simulators (in-process v1/v2/v3 signatures, raw-socket process) against the version table; differential 2.x vs 3.0",
         "All version strings x explicit api_version (equal, different, minor different, prefix of the announced one, major only) x transport x type present/absent; failing old simulators, same-named classes, extra methods, repeated starts from one entry.", "4/C15"),
 "C16": ("exploration", "A", "runtime monitoring: exactly-once history check of set_data values with unique ids; ordering oracle; refusal of unauthorised requests",
         "Generated agent scenarios (ratios, 1-3 agents with 1-2 agent entities per set_data call, sparse writes, first step of the controlled simulator after 0, groups, sub-steps, debug mode; requests without connection, without the flag, towards unknown simulator ids) under controlled schedules plus a sample over real processes.", "3/C16"),
 "C17": ("exploration", "A", "runtime monitoring on a virtual clock: pacing arithmetic, too-slow reports, rt_strict differential, injected set_event",
         "Virtual clock makes timing deterministic; dyadic factors. One open known finding (consumers one slot late and reported too slow).", "3/C17"),
 "C10": ("exploration", "A", "runtime monitoring: ordering oracle (producer begin vs. consumers' outstanding steps), lazy_stepping=True",
         "At every producer step begin no consumer has an unfinished demanded step of an earlier time.", "3/C10"),
}
ENGINES = [
 {"name": "A simlab", "path": "vlab/loop.py vlab/sims.py vlab/build.py vlab/gen.py vlab/model.py vlab/monitors.py",
  "serves_properties": ["C01", "C02", "C03", "C04", "C05", "C07", "C09", "C10", "C13", "C16", "C17"],
  "kind_free_text": "real mosaik scheduler in-process under a controlled asyncio loop (selector resolves one in-flight simulator reply per quiescent point, virtual clock), scripted recording simulators, oracles over the recorded event list"},
 {"name": "B remotelab", "path": "vlab/remotelab.py vlab/simproc.py", "serves_properties": ["C14", "C15", "C04"],
  "kind_free_text": "real simulator processes over TCP with fault injection; containment checklist"},
 {"name": "C contracts", "path": "vlab/checks", "serves_properties": ["C06", "C08", "C11", "C12", "C18"],
  "kind_free_text": "postcondition wrappers around the real pure functions / scenario API against independent semantic models, exhaustive over bounded spaces"},
]
NA = []

def main():
    checks = []
    for pid, (cat, eng, tech, text, ref) in sorted(CHECKS.items()):
        checks.append({
            "property_id": pid,
            "quick_cmd": f"./check {pid} --tier quick",
            "thorough_cmd": f"./check {pid} --tier thorough",
            "evidence_file": f"/verif/evidence/{pid}.json",
            "replay_cmd_template": f"./check {pid} --replay {{path}}",
            "engine": eng,
            "level_claimed": {"category": cat, "text": text, "design_ref": "DESIGN.md section " + ref},
            "level_note": "trusted base: CPython/asyncio, the harness (vlab), the documentation-derived label model; "
                          "covers only generated scenarios (<= 6 simulators, depth <= 3, until <= 9) and explored schedules",
            "technique": tech,
        })
    man = {
        "version": 1,
        "setup_cmd": "./setup.sh",
        "hooks": {
            "guard": "MOSAIK_VERIF",
            "enable": "no source hooks in /repo: all observation happens at the public simulator API, through World(asyncio_loop=...) and by wrapping functions from the harness process; ./check exports MOSAIK_VERIF=1 for the harness only",
            "baseline_off_cmd": BASE,
            "source_commits": [],
            "add_only": True,
        },
        "engines": ENGINES,
        "checks": checks,
        "notes": "Known findings: /verif/known_findings.json (open entries matched by mechanism; fixed entries list the fix: commits in /repo).",
        "not_applicable": NA,
    }
    with open(os.path.join(HERE, "MANIFEST.json"), "w") as f:
        json.dump(man, f, indent=1)

if __name__ == "__main__":
    main()
