"""Worker process: runs one slice of a check's case space."""
from __future__ import annotations

import faulthandler
import importlib
import json
import os
import sys
import traceback


def main():
    pid, jobfile, outfile = sys.argv[1:4]
    faulthandler.enable()
    with open(jobfile) as f:
        job = json.load(f)
    # generous wall-clock watchdog: dump stacks and die -> driver says inconclusive
    faulthandler.dump_traceback_later(job.get("timeout_s", 3000) + 30, exit=True)
    from vlab import reach
    rh = reach.start(os.environ.get("VERIF_REPO", "/repo"))
    chk = importlib.import_module(f"vlab.checks.{pid.lower()}")
    try:
        res = chk.run_slice(job)
    except BaseException:
        traceback.print_exc()
        sys.exit(3)
    res["windex"] = job["windex"]
    res["reach"] = reach.collect(rh)
    tmp = outfile + ".tmp"
    with open(tmp, "w") as f:
        json.dump(res, f, default=str)
    os.replace(tmp, outfile)


if __name__ == "__main__":
    main()
