"""C04 Schedule and configuration independence -- differential, no model.

For one scenario the per-simulator sequence [(time, k, canonical(inputs))] must be
identical across schedules (policies; exhaustive DFS over quiescent-point
completions for small scenarios), start orders, lazy on/off, cache on/off,
debug on/off and transport (in-process vs. real processes)."""
from __future__ import annotations

import time
from collections import Counter
from typing import Any, Dict, List, Optional

from .. import findings
from ..build import run_case
from ..gen import PROFILES, features, gen_scenario
from ..monitors import Analysis
from ..sims import H, canon
from ._enga import POLICY_CYCLE, order_hash, scn_hash, sizes

PROP = "C04"
HEADLINE = ["scenarios", "variant_runs", "pairs_compared", "steps_compared", "dfs_scenarios",
            "dfs_schedules", "dfs_exhausted", "remote_runs", "scenarios_with_2plus_distinct_orders"]


def plan(tier, seed, scale):
    q = tier == "quick"
    return {"n_cases": sizes(tier, scale, 640, 16000), "variants": 12 if q else 32,
            "profiles": ["core", "flat", "data", "data_flat", "events", "events_flat", "par", "par_flat", "deep", "big"],
            "dfs_every": 8, "dfs_cap": 400 if q else 50000, "dfs_budget_s": 2.0 if q else 120.0,
            "remote_every": 40 if q else 25,
            "timeout_s": 900 if q else 10800}


def subtime_steps(a: Analysis) -> set:
    s = set()
    for v in a.viol["C03"]:
        if findings.m_subtime_data_path(v):
            s.add((v["sid"], tuple(v["label"])))
    return s


def compare(ref: dict, other: dict, grouped: bool) -> Optional[dict]:
    """ref/other: {"seq": {sid: [...]}, "labels": {sid: [...]}, "sub": set, "desc": ...}"""
    unexplained = None
    explained = None
    for sid in sorted(ref["seq"]):
        sa, sb = ref["seq"][sid], other["seq"].get(sid, [])
        n = min(len(sa), len(sb))
        for p in range(n):
            if sa[p] == sb[p]:
                continue
            d = {"kind": "sequences_differ", "sid": sid, "index": p, "a": list(sa[p]), "b": list(sb[p]),
                 "run_a": ref["desc"], "run_b": other["desc"]}
            same_step = sa[p][0] == sb[p][0] and sa[p][1] == sb[p][1]
            ok = False
            if grouped and same_step:
                la = ref["labels"][sid][p] if p < len(ref["labels"][sid]) else None
                lb = other["labels"][sid][p] if p < len(other["labels"].get(sid, [])) else None
                if (la is not None and (sid, la) in ref["sub"]) or (lb is not None and (sid, lb) in other["sub"]):
                    ok = True
            if ok:
                if explained is None:
                    d["mech"] = "subtime_early"
                    explained = d
                continue
            d["mech"] = None
            return d
        if len(sa) != len(sb):
            return {"kind": "sequences_differ", "sid": sid, "index": n, "a": list(sa[n]) if len(sa) > n else None,
                    "b": list(sb[n]) if len(sb) > n else None, "run_a": ref["desc"], "run_b": other["desc"],
                    "mech": None, "note": "different number of steps"}
    return unexplained or explained


def failed_run_violation(scn_v: dict, tr: dict, ref_desc: dict, desc: dict) -> Optional[dict]:
    """The reference run of this scenario completed, this run did not: the outcome depends on the schedule or
    the configuration -- unless the failure is one of C05's open known findings (classified with C05's own
    annotation and predicates)."""
    from . import c05
    a = Analysis(scn_v, tr)
    c05.post(scn_v, tr, a)
    vs = a.viol["C05"]
    if vs and all(findings.match("C05", v) is not None for v in vs):
        return None
    o = tr["outcome"]
    return {"kind": "outcome_differs", "run_a": ref_desc, "run_b": desc, "b_outcome": {
        "type": o.get("type"), "msg": (o.get("msg") or "")[:200], "where": o.get("where")}, "mech": None}


def summarize(scn_v: dict, tr: dict, desc: dict) -> Optional[dict]:
    if tr["outcome"]["kind"] != "ok":
        return None
    a = Analysis(scn_v, tr)
    return {"seq": a.seq, "labels": {sid: [st["L"] for st in a.steps[sid]] for sid in a.steps},
            "sub": subtime_steps(a), "desc": desc, "oh": order_hash(tr["events"]),
            "infl": tr["stats"]["max_inflight_sims"], "steps": a.stats["steps"]}


def variant_cfg(base: dict, seed: int, i: int, v: int):
    cfg = dict(base)
    cfg["cache"] = bool(v & 1)
    cfg["lazy"] = bool(v & 2) if v % 5 else True
    cfg["debug"] = (v % 6 == 5)
    cfg["order_seed"] = None if v % 3 == 0 else H(seed, i, v, "order") % (1 << 20)
    cfg["merge_connects"] = bool(v & 4)       # one connect() call per attribute pair, or several pairs per call
    cfg["connect_one"] = (v % 7 == 3)         # single pairs through World.connect_one()
    sched = dict(POLICY_CYCLE[(i + v) % len(POLICY_CYCLE)])
    sched["seed"] = H(seed, i, v, "sched") % (1 << 31)
    return cfg, sched


def run_slice(job: dict) -> dict:
    seed = job["seed"]
    res: Dict[str, Any] = {"evaluations": 0, "counters": Counter(), "hashes": set(), "violations": [],
                           "samples": [], "aborted": 0, "exhausted": []}
    C = res["counters"]
    KF = findings.load()
    n_unl = 0
    n_kn = 0
    profiles = job["profiles"]
    for i in range(job["windex"], job["n_cases"], job["nworkers"]):
        dfs = (i // job["nworkers"]) % job["dfs_every"] == 0
        remote = job["remote_every"] and (i % job["remote_every"] == 0)
        pname = profiles[i % len(profiles)]
        if dfs:
            pname = "tiny" if (i // job["nworkers"] // job["dfs_every"]) % 2 else "tiny_flat"
        prof = dict(PROFILES[pname])
        f_grouped = prof.get("depth", 2) > 0
        prof["amplify"] = not f_grouped      # grouped: per-step classification needs equal step sets
        scn = gen_scenario(H(seed, "c04", pname, i) % (1 << 48), prof)
        grouped = any(s.get("path") for s in scn["sims"])
        C["scenarios"] += 1
        C["scenarios_grouped" if grouped else "scenarios_flat"] += 1
        # reference: the suite's own schedule (atomic requests), cache on, lazy on
        ref_cfg = dict(scn["config"], cache=True, lazy=True, debug=False, order_seed=None)
        ref_scn = dict(scn, config=ref_cfg)
        tr = run_case(ref_scn, {"policy": "fifo", "atomic": True})
        res["evaluations"] += 1
        ref = summarize(ref_scn, tr, {"config": ref_cfg, "sched": "atomic"})
        if ref is None:
            C["reference_run_failed"] += 1
            res["aborted"] += 1
            continue
        orders = {ref["oh"]}
        viol = None

        def consider(other, replay):
            nonlocal viol, n_unl, n_kn
            C["pairs_compared"] += 1
            C["steps_compared"] += other["steps"]
            d = compare(ref, other, grouped)
            if d is None:
                return
            kf = findings.match(PROP, d, KF)
            if kf is not None:
                C["known_" + kf["id"]] += 1
                if n_kn < 2:
                    n_kn += 1
                    res["violations"].append({"v": d, "replay": replay})
            else:
                C["unlisted_violations"] += 1
                if n_unl < 8:
                    n_unl += 1
                    res["violations"].append({"v": d, "replay": replay})

        for v in range(job["variants"]):
            cfg, sched = variant_cfg(scn["config"], seed, i, v)
            scn_v = dict(scn, config=cfg)
            tr = run_case(scn_v, sched)
            res["evaluations"] += 1
            C["variant_runs"] += 1
            C["runs_policy_" + sched["policy"]] += 1
            for k in ("cache", "lazy", "debug"):
                C[f"runs_{k}_{'on' if cfg[k] else 'off'}"] += 1
            C["runs_order_permuted" if cfg["order_seed"] is not None else "runs_order_declared"] += 1
            vdesc = {"config": cfg, "sched": {k: sched[k] for k in sched if k != "schedule"}}
            o = summarize(scn_v, tr, vdesc)
            if o is None:
                C["variant_run_failed"] += 1
                res["aborted"] += 1
                fv = failed_run_violation(scn_v, tr, ref["desc"], vdesc)
                if fv is None:
                    C["variant_run_failed_known_c05_finding"] += 1
                else:
                    C["unlisted_violations"] += 1
                    C["violation_outcome_differs"] += 1
                    if n_unl < 8:
                        n_unl += 1
                        rs = dict(sched, orig_policy=sched["policy"], policy="replay", schedule=tr["schedule"])
                        res["violations"].append({"v": fv, "replay": {"scn": scn, "ref_cfg": ref_cfg, "cfg": cfg, "sched": rs}})
                continue
            orders.add(o["oh"])
            if o["infl"] >= 2:
                res["hashes"].add(H(scn_hash(scn), o["oh"], canon(cfg)) % (1 << 52))
            rs = dict(sched, orig_policy=sched["policy"], policy="replay", schedule=tr["schedule"])
            consider(o, {"scn": scn, "ref_cfg": ref_cfg, "cfg": cfg, "sched": rs})
        # ---- exhaustive DFS over quiescent-point completions (small scenarios) -----
        if dfs:
            C["dfs_scenarios"] += 1
            cfg = dict(scn["config"], cache=bool(i & 1), lazy=bool(i & 2), debug=False, order_seed=None)
            scn_v = dict(scn, config=cfg)
            prefix: List[int] = []
            n_sched = 0
            t_end = time.time() + job["dfs_budget_s"]
            exhausted = False
            while True:
                tr = run_case(scn_v, {"policy": "replay", "schedule": list(prefix)})
                res["evaluations"] += 1
                n_sched += 1
                o = summarize(scn_v, tr, {"config": cfg, "sched": {"policy": "dfs", "schedule": list(tr["schedule"])}})
                if o is None:
                    C["variant_run_failed"] += 1
                else:
                    orders.add(o["oh"])
                    if o["infl"] >= 2:
                        res["hashes"].add(H(scn_hash(scn), o["oh"], canon(cfg)) % (1 << 52))
                    consider(o, {"scn": scn, "ref_cfg": ref_cfg, "cfg": cfg,
                                 "sched": {"policy": "replay", "schedule": list(tr["schedule"])}})
                taken = [c if isinstance(c, int) else c[0] for c in tr["schedule"]]
                br = tr["branching"]
                j = len(taken) - 1
                while j >= 0 and taken[j] + 1 >= br[j]:
                    j -= 1
                if j < 0:
                    exhausted = True
                    break
                prefix = taken[:j] + [taken[j] + 1]
                if n_sched >= job["dfs_cap"] or time.time() > t_end:
                    break
            C["dfs_schedules"] += n_sched
            if exhausted:
                C["dfs_exhausted"] += 1
                if len(res["exhausted"]) < 3:
                    res["exhausted"].append({"scenario": [f"{s['sid']}:{s['type']}" for s in scn["sims"]],
                                             "conns": len(scn["conns"]), "until": scn["until"],
                                             "schedules": n_sched, "distinct_orders": len(orders)})
        # ---- remote transport ------------------------------------------------------
        if remote:
            from ..remotelab import run_remote, seqs_from_remote
            cfg = dict(scn["config"], cache=bool(i & 1), lazy=bool(i & 2), debug=False, order_seed=None)
            scn_v = dict(scn, config=cfg)
            rt = run_remote(scn_v, max_sleep=0.004, sleep_seed=H(seed, i) % 1000)
            res["evaluations"] += 1
            C["remote_runs"] += 1
            if rt["outcome"]["kind"] != "ok":
                C["remote_run_failed_" + rt["outcome"]["kind"]] += 1
                res["aborted"] += 1
            else:
                # the remote run gets the same C03 analysis (events merged by the monotonic clock), so that
                # the open sub-time finding can be classified per step in this run as well
                from ..remotelab import merged_trace
                other = summarize(scn_v, merged_trace(rt), {"config": cfg, "sched": "remote processes, real sleeps"})
                if other is not None:
                    consider(other, {"scn": scn, "ref_cfg": ref_cfg, "cfg": cfg, "sched": "remote"})
        if len(orders) >= 2:
            C["scenarios_with_2plus_distinct_orders"] += 1
        C["distinct_orders_total"] += len(orders)
        if len(res["samples"]) < 2 and len(orders) >= 3:
            res["samples"].append({
                "scenario": {"until": scn["until"],
                             "sims": [f"{s['sid']}:{s['type']}@{tuple(s.get('path', []))}" for s in scn["sims"]],
                             "conns": len(scn["conns"])},
                "variants_run": job["variants"], "distinct_global_orders": len(orders),
                "per_simulator_steps": {sid: len(v) for sid, v in ref["seq"].items()},
                "first_steps_of_reference": {sid: [list(x[:2]) for x in v[:4]] for sid, v in ref["seq"].items()}})
    res["hashes"] = list(res["hashes"])
    res["counters"] = dict(C)
    return res


def replay(rep: dict) -> List[dict]:
    r = rep["replay"]
    scn = r["scn"]
    grouped = any(s.get("path") for s in scn["sims"])
    ref_scn = dict(scn, config=r["ref_cfg"])
    ref = summarize(ref_scn, run_case(ref_scn, {"policy": "fifo", "atomic": True}), {"config": r["ref_cfg"], "sched": "atomic"})
    scn_v = dict(scn, config=r["cfg"])
    if r["sched"] == "remote":
        from ..remotelab import run_remote, seqs_from_remote
        from ..remotelab import merged_trace
        rt = run_remote(scn_v, max_sleep=0.004)
        other = summarize(scn_v, merged_trace(rt), "remote") if rt["outcome"]["kind"] == "ok" else None
    else:
        other = summarize(scn_v, run_case(scn_v, dict(r["sched"])), {"config": r["cfg"], "sched": "replay"})
    if ref is not None and other is None and r["sched"] != "remote":
        tr = run_case(scn_v, dict(r["sched"]))
        fv = failed_run_violation(scn_v, tr, ref["desc"], "replay") if tr["outcome"]["kind"] != "ok" else None
        return [fv] if fv else []
    if ref is None or other is None:
        return []
    d = compare(ref, other, grouped)
    return [d] if d else []


def decide(m, tier):
    c = m["counters"]
    reasons = []
    if c.get("scenarios_with_2plus_distinct_orders", 0) < 0.5 * max(1, c.get("scenarios", 0)):
        reasons.append("fewer than half of the scenarios were seen under two or more distinct global orders")
    if c.get("dfs_exhausted", 0) < 3:
        reasons.append("fewer than 3 small scenarios were enumerated exhaustively")
    if c.get("remote_runs", 0) - sum(v for k, v in c.items() if k.startswith("remote_run_failed")) < 3:
        reasons.append("fewer than 3 successful remote-transport runs")
    for k in ("runs_cache_on", "runs_cache_off", "runs_lazy_on", "runs_lazy_off", "runs_debug_on",
              "runs_order_permuted"):
        if c.get(k, 0) < 50:
            reasons.append(f"{k} < 50")
    if m["aborted"] > 0.2 * max(1, m["evaluations"]):
        reasons.append("more than 20% of runs aborted")
    return ("inconclusive" if reasons else "held"), reasons


def evidence(m, tier, seed):
    return {"level": "exploration", "coverage": {
        "rule": "case = one run of a scenario; all runs of a scenario (atomic reference, schedule policies, start-order "
                "permutations, lazy/cache/debug on/off, exhaustive DFS over reply completions at quiescent points for "
                "small scenarios, real remote processes) must give every simulator the same (time, k, inputs) sequence, and "
                "a run must not fail where the reference run of the scenario completes; "
                "distinct = hash(scenario, config, global event order); non-trivial = two simulators in flight at once",
        "exhaustive": False,
        "dfs_exhausted_examples": m["exhausted"][:5],
        "obligations": m["counters"].get("pairs_compared", 0),
    }, "assumptions": ["'exhaustive' DFS = every order in which in-flight replies can complete at quiescent points of the "
                       "loop; completions between quiescent points (sleep(0) latencies) are sampled",
                       "grouped scenarios run without input-dependent behaviour so that the open sub-time finding "
                       "can be classified per step; flat scenarios amplify every input difference"]}
