"""C13 Runtime validation of simulator replies -- fault enumeration (value x step index x position)."""
from __future__ import annotations

import re
from collections import Counter
from typing import Any, Dict, List

from ..build import run_case
from ..gen import PROFILES, gen_scenario
from ..monitors import Analysis
from ..sims import H
from ._enga import POLICY_CYCLE, order_hash, scn_hash

PROP = "C13"
HEADLINE = ["scenarios", "fault_cases", "faults_fired", "rejected_with_simulator_id", "offender_types_time-based",
            "offender_types_event-based", "offender_types_hybrid"]

NEXT_FAULTS = ["float", "float_frac", "str", "list", "negative", "equal", "less", "float_until", "float_beyond"]
OUT_FAULTS = ["otime_minus1", "otime_neg"]


def plan(tier, seed, scale):
    q = tier == "quick"
    return {"n_cases": int((160 if q else 16000) * scale), "profiles": ["core", "flat", "events", "chain", "data_flat"],
            "max_steps": 4 if q else 8, "timeout_s": 900 if q else 10800}


def judge(scn: dict, tr: dict, offender: str, how: str) -> List[dict]:
    out: List[dict] = []
    ev = tr["events"]
    fidx = next((e["i"] for e in ev if e.get("op") == "fault" and e["sid"] == offender), None)
    if fidx is None:
        return [{"kind": "_not_fired"}]
    o = tr["outcome"]
    if o["kind"] == "ok":
        out.append({"kind": "malformed_reply_silently_accepted", "offender": offender, "fault": how})
    elif o["kind"] == "error":
        msg = o.get("msg", "")
        if not re.search(r"(?<![A-Za-z0-9_])" + re.escape(offender) + r"(?![A-Za-z0-9_])", msg):
            out.append({"kind": "error_does_not_identify_simulator", "offender": offender, "fault": how,
                        "type": o.get("type"), "msg": msg[:200], "where": o.get("where")})
        if o.get("type") in ("Deadlock", "Livelock", "BudgetExceeded"):
            out.append({"kind": "hang_after_malformed_reply", "offender": offender, "fault": how, "type": o.get("type")})
    # the reply that carries the fault
    ret_kind = "get_data" if how.startswith("otime") else "step"
    ridx = next((e["i"] for e in ev if e["i"] > fidx and e.get("op") == "ret" and e.get("kind") == ret_kind
                 and e["sid"] == offender), None)
    if ridx is not None:
        later = [e for e in ev if e["i"] > ridx and e["sid"] == offender and e.get("op") == "call"]
        if later:
            out.append({"kind": "offender_got_further_requests", "offender": offender, "fault": how,
                        "requests": [(e["kind"], e.get("time")) for e in later][:4]})
    fin = None  # requests after finalize are C14's subject (pending event-loop work), not C13's
    if fin is not None:
        after = [e for e in ev if e["i"] > fin and e.get("op") in ("call",)]
        if after:
            out.append({"kind": "requests_after_run_returned", "fault": how,
                        "requests": [(e["sid"], e["kind"], e.get("time")) for e in after][:4]})
    # nothing may be turned into a step in the past / corrupt later steps.  The reference model must
    # not ingest the malformed reply itself (mosaik has to reject it): blank it in a copy of the trace.
    if ridx is not None and ret_kind == "get_data":
        ev2 = [dict(e, data={}) if e["i"] == ridx else e for e in ev]
        tr = dict(tr, events=ev2)
    a = Analysis(scn, tr)
    # (what set_initial_event means for a time-based simulator is outside this property and outside the
    # documentation: the step set of such a simulator is not judged here)
    unsure = {x["sid"] for x in scn["sims"] if x["type"] != "event-based" and x.get("initial_event") is not None}
    if scn.get("_rt_variant"):
        # steps demanded by set_event() are not part of the step-set model used here (C17 judges them)
        return out
    for v in a.viol["C02"]:
        if v.get("sid") in unsure:
            continue
        if v["kind"] in ("spurious_step", "out_of_order", "undemanded_time", "out_of_range", "not_increasing",
                         "overlapping_steps"):
            out.append(dict(v, kind="corrupted_step_set_" + v["kind"], fault=how, offender=offender))
    for v in a.viol["C01"]:
        out.append(dict(v, kind="corrupted_order_" + v["kind"], fault=how, offender=offender))
    return out


def run_slice(job: dict) -> dict:
    res: Dict[str, Any] = {"evaluations": 0, "counters": Counter(), "hashes": set(), "violations": [],
                           "samples": [], "aborted": 0}
    C = res["counters"]
    W, w = job["nworkers"], job["windex"]
    seed = job["seed"]
    for i in range(w, job["n_cases"], W):
        pname = job["profiles"][i % len(job["profiles"])]
        scn = gen_scenario(H(seed, "c13", pname, i) % (1 << 48), PROFILES[pname])
        if i % 3 == 0:
            # a time-based simulator whose first step is set with set_initial_event(t0 > 0)
            tb = [x for x in scn["sims"] if x["type"] == "time-based"]
            if tb and scn["until"] > 2:
                tb[0]["initial_event"] = 1 + H(seed, "c13ie", i) % (scn["until"] - 2)
                C["scenarios_time_based_with_initial_event"] += 1
        if i % 5 == 1:
            # real-time variant (virtual clock): one simulator also schedules steps for itself with set_event(),
            # so a step can already be queued when the malformed reply arrives
            scn["config"] = dict(scn.get("config", {}), rt_factor=0.01)
            scn["_rt_variant"] = True
            pick = sorted(scn["sims"], key=lambda x: (x["type"] != "time-based", H(seed, "c13rt", i, x["sid"])))[0]
            pick["set_events"] = True
            pick["beh"] = dict(pick["beh"], set_events={"*": [-(1 + H(seed, "c13ev", i) % 3)]})
            C["scenarios_real_time_with_set_event"] += 1
        base = run_case(scn, {"policy": "random", "seed": i})
        res["evaluations"] += 1
        if base["outcome"]["kind"] != "ok":
            C["baseline_failed"] += 1
            continue
        C["scenarios"] += 1
        nsteps = Counter(e["sid"] for e in base["events"] if e.get("op") == "call" and e.get("kind") == "step")
        has_out = {s["sid"]: any(c["src"] == s["sid"] for c in scn["conns"]) for s in scn["sims"]}
        case = 0
        for s in scn["sims"]:
            sid, typ = s["sid"], s["type"]
            faults = list(NEXT_FAULTS)
            if typ == "time-based":
                faults.append("none")
            if has_out[sid]:
                faults += OUT_FAULTS
            for n in range(min(nsteps.get(sid, 0), job["max_steps"])):
                for how in faults:
                    case += 1
                    scn_f = dict(scn)
                    scn_f["sims"] = [dict(x, fault={"mode": "reply", "kind": "get_data" if how.startswith("otime") else "step",
                                                    "at_step": n, "how": how}) if x["sid"] == sid else x
                                     for x in scn["sims"]]
                    sched = dict(POLICY_CYCLE[(i + case) % len(POLICY_CYCLE)])
                    sched["seed"] = H(seed, i, case) % (1 << 31)
                    tr = run_case(scn_f, sched)
                    res["evaluations"] += 1
                    C["fault_cases"] += 1
                    vs = judge(scn_f, tr, sid, how)
                    if vs and vs[0]["kind"] == "_not_fired":
                        C["fault_not_reached"] += 1     # schedule-dependent step count: inconclusive case
                        continue
                    C["faults_fired"] += 1
                    C["fault_" + how] += 1
                    C["offender_types_" + typ] += 1
                    C["fault_at_step_%d" % n] += 1
                    res["hashes"].add(H(scn_hash(scn), sid, n, how, order_hash(tr["events"])) % (1 << 52))
                    if not vs:
                        C["rejected_with_simulator_id"] += 1
                        if len(res["samples"]) < 2 and case % 37 == 0:
                            res["samples"].append({"offender": f"{sid}:{typ}", "step_index": n, "fault": how,
                                                   "error": f"{tr['outcome'].get('type')}: {tr['outcome'].get('msg', '')[:120]}"})
                    for v in vs:
                        C["violation_" + v["kind"]] += 1
                        C["unlisted_violations"] += 1
                        if len(res["violations"]) < 10:
                            rs = dict(sched, orig_policy=sched["policy"], policy="replay", schedule=tr["schedule"])
                            res["violations"].append({"v": dict(v, offender_type=typ, step_index=n),
                                                      "replay": {"scn": scn_f, "sched": rs, "offender": sid, "how": how}})
    res["hashes"] = list(res["hashes"])
    res["counters"] = dict(C)
    return res


def replay(rep: dict) -> List[dict]:
    r = rep["replay"]
    tr = run_case(r["scn"], dict(r["sched"]))
    return [v for v in judge(r["scn"], tr, r["offender"], r["how"]) if v["kind"] != "_not_fired"]


def decide(m, tier):
    c = m["counters"]
    reasons = []
    if c.get("faults_fired", 0) < 2000:
        reasons.append("fewer than 2000 injected malformed replies were actually delivered")
    for t in ("time-based", "event-based", "hybrid"):
        if c.get("offender_types_" + t, 0) < 100:
            reasons.append(f"fewer than 100 faults on {t} simulators")
    for h in NEXT_FAULTS + OUT_FAULTS + ["none"]:
        if c.get("fault_" + h, 0) < 30:
            reasons.append(f"fault kind {h} delivered fewer than 30 times")
    return ("inconclusive" if reasons else "held"), reasons


def evidence(m, tier, seed):
    return {"level": "fault_enumeration", "coverage": {
        "rule": "for every generated scenario a fault-free run counts each simulator's steps; then every (simulator, "
                "step index < min(steps, cap), malformed value) is run once under a rotating schedule policy: next "
                "step in {float, fractional float, str, list, negative, == time, < time, float(until), until+0.5}, None from a time-based "
                "simulator, output time in {time-1, -1}; every fifth scenario in real-time mode (virtual clock) with a simulator that "
                "also queues steps for itself through set_event(); expected: run() raises an error whose text contains the "
                "simulator id, the offender gets no further request, nobody gets a request after finalize, the step "
                "set/order of everybody stays consistent; distinct_nontrivial = distinct (scenario, offender, step, "
                "fault, global order) where the fault was actually delivered",
        "exhaustive": False,
        "obligations": m["counters"].get("faults_fired", 0),
    }, "assumptions": ["bool replies are excluded (bool is an int in Python and JSON)", "in-process transport"]}
