"""C10 Lazy stepping bounds run-ahead."""
from ._enga import run_slice_mon, replay_mon, sizes

PROP = "C10"
HEADLINE = ["c10_pairs_checked", "c10_producer_steps", "c10_producer_steps_consumer_finished_meanwhile"]


def plan(tier, seed, scale):
    return {"n_cases": sizes(tier, scale, 2400, 60000), "variants": 4, "force_lazy": True, "rt_every": 5,
            "profiles": ["lazy", "lazy_flat", "core", "data", "big", "par", "wild", "sibling"],
            "remote_cases": int((32 if tier == "quick" else 1600) * scale),
            "dfs_cases": int((96 if tier == "quick" else 1600) * scale), "dfs_cap": 300 if tier == "quick" else 20000,
            "dfs_budget_s": 1.5 if tier == "quick" else 20.0,
            "timeout_s": 600 if tier == "quick" else 7200}


def obligations(st):
    return st.get("c10_pairs_checked", 0)


def run_slice(job):
    return run_slice_mon(job, PROP, obligations)


def replay(rep):
    return replay_mon(rep, PROP)


def decide(m, tier):
    c = m["counters"]
    reasons = []
    if c.get("c10_producer_steps_consumer_finished_meanwhile", 0) < 500:
        reasons.append("fewer than 500 producer steps for which a consumer finished an earlier step after the "
                       "producer's previous step began (the wait was never real)")
    if m["aborted"] > 0.2 * max(1, m["evaluations"]):
        reasons.append("more than 20% of runs aborted")
    return ("inconclusive" if reasons else "held"), reasons


def evidence(m, tier, seed):
    return {"level": "exploration", "coverage": {
        "rule": "lazy_stepping=True; case = generated scenario x schedule policy x cache variant; at every producer "
                "step begin no consumer may have a demanded step with an earlier label that is not finished; "
                "distinct = hash(scenario, config, global event order); non-trivial = two simulators in flight and "
                "at least one (producer step, consumer) pair checked",
        "obligations": m["counters"].get("c10_pairs_checked", 0),
    }, "assumptions": ["'outstanding' = demanded according to the replies observed so far and not finished"]}
