"""C14 Fault containment and clean shutdown -- fault enumeration over every request index x fault kind,
real simulator processes over TCP (engine B) and in-process simulators."""
from __future__ import annotations

import asyncio
import gc
import json
import os
import shutil
import signal
import tempfile
import time as _time
import traceback
import warnings
from collections import Counter
from typing import Any, Dict, List, Optional

from .. import build as vbuild
from .. import sims as vsims
from ..remotelab import Watchdog, read_remote_logs
from ..sims import H

PROP = "C14"
HEADLINE_GEN = ["gen_scenarios", "gen_faults_fired", "gen_faults_with_other_simulators_in_flight", "gen_contained"]
HEADLINE = ["fault_cases", "faults_fired", "kind_exit", "kind_raise", "kind_close", "kind_local_raise",
            "contained", "survivors_checked", "processes_checked", "max_elapsed_ms"] + HEADLINE_GEN


def plan(tier, seed, scale):
    q = tier == "quick"
    return {"n_cases": 1, "until": 3 if q else 4, "catalogue": [0, 1, 2, 4, 5, 6, 7] if q else [0, 1, 2, 3, 4, 5, 6, 7],
            "repeat": 1 if q else 3, "timeout_s": 1500 if q else 10800,
            "gen_scenarios": int((96 if q else 2400) * scale), "gen_max_requests": 8 if q else 14,
            "gen_profiles": ["core", "flat", "events", "data", "par", "tiny"]}


def sim(sid, typ, ins, outs, **beh):
    b = {"seed": 1, "sizes": [1], "p_out": 1.0, "p_self": 1.0, "horizon": 1}
    b.update(beh)
    return {"sid": sid, "type": typ, "path": [], "entities": ["e0"], "ins": ins, "outs": outs, "beh": b}


def catalogue(k: int, until: int):
    """(scenario, remote simulators)"""
    if k == 0:
        scn = {"sims": [sim("A", "time-based", {}, {"o": "persistent"}),
                        sim("B", "time-based", {"i": "nontrigger"}, {})],
               "conns": [{"src": "A", "se": "e0", "sa": "o", "dst": "B", "de": "e0", "da": "i"}]}
        remote = ["A", "B"]
    elif k == 1:
        scn = {"sims": [sim("A", "time-based", {}, {"o": "persistent"}),
                        sim("B", "event-based", {"i": "trigger"}, {"o": "nonpersistent"}),
                        sim("C", "hybrid", {"i": "trigger"}, {"o": "persistent"})],
               "conns": [{"src": "A", "se": "e0", "sa": "o", "dst": "B", "de": "e0", "da": "i"},
                         {"src": "B", "se": "e0", "sa": "o", "dst": "C", "de": "e0", "da": "i"}]}
        remote = ["A", "C"]         # B in-process
    elif k == 2:
        scn = {"sims": [sim("A", "hybrid", {"i": "nontrigger"}, {"o": "persistent"}, self_steps={str(t): t + 1 for t in range(20)}),
                        sim("B", "hybrid", {"i": "trigger"}, {"o": "persistent"}),
                        sim("X", "time-based", {}, {})],
               "conns": [{"src": "A", "se": "e0", "sa": "o", "dst": "B", "de": "e0", "da": "i"},
                         {"src": "B", "se": "e0", "sa": "o", "dst": "A", "de": "e0", "da": "i", "shift": 1, "init": "i0"}]}
        remote = ["A", "B", "X"]
    elif k == 3:
        scn = {"sims": [sim("A", "time-based", {}, {"o": "persistent"}),
                        sim("B", "time-based", {"i": "nontrigger"}, {"o": "persistent"}),
                        sim("C", "time-based", {"i": "nontrigger"}, {}),
                        sim("D", "event-based", {"i": "trigger"}, {})],
               "conns": [{"src": "A", "se": "e0", "sa": "o", "dst": "B", "de": "e0", "da": "i"},
                         {"src": "B", "se": "e0", "sa": "o", "dst": "C", "de": "e0", "da": "i"},
                         {"src": "A", "se": "e0", "sa": "o", "dst": "D", "de": "e0", "da": "i"}]}
        remote = ["B", "C", "D"]    # A in-process
    elif k == 6:
        # an agent's asynchronous get_data towards a slow remote source is in flight (held by the agent's
        # reader task in mosaik, not by a scheduler process) while an unrelated in-process simulator fails
        scn = {"sims": [sim("A", "time-based", {}, {"o": "persistent"}, remote_sleep={"get_data": 0.25}),
                        sim("B", "time-based", {"i": "nontrigger"}, {},
                            agent={"targets": [], "p_set": 0.0, "get": [["A.e0", "o"]], "p_get": 1.0}),
                        sim("C", "time-based", {"i": "nontrigger"}, {})],
               "conns": [{"src": "A", "se": "e0", "sa": "o", "dst": "B", "de": "e0", "da": "i", "async": True},
                         {"src": "A", "se": "e0", "sa": "o", "dst": "C", "de": "e0", "da": "i"}]}
        scn["fault_delay"] = 0.1       # in-process faults fire 0.1 s into the request (see sims.step)
        remote = ["A", "B"]
    elif k == 7:
        # like 6, but the source is in-process and practically never answers the agent's asynchronous request:
        # whatever mosaik started to serve that request is still outstanding when the run is torn down
        scn = {"sims": [sim("A", "time-based", {}, {"o": "persistent"}, slow_async_get_data=3600.0),
                        sim("B", "time-based", {"i": "nontrigger"}, {},
                            agent={"targets": [], "p_set": 0.0, "get": [["A.e0", "o"]], "p_get": 1.0}),
                        sim("C", "time-based", {"i": "nontrigger"}, {})],
               "conns": [{"src": "A", "se": "e0", "sa": "o", "dst": "B", "de": "e0", "da": "i", "async": True},
                         {"src": "A", "se": "e0", "sa": "o", "dst": "C", "de": "e0", "da": "i"}]}
        scn["fault_delay"] = 0.1
        remote = ["B"]
    elif k == 5:
        # simulators announcing an older API version (wrapped in version adapters): remote 2.2, in-process 2.0
        scn = {"sims": [dict(sim("A", "time-based", {}, {"o": "persistent"}), api_version="2.2"),
                        dict(sim("B", "time-based", {"i": "nontrigger"}, {"o": "persistent"}), api_version="2.0"),
                        sim("C", "time-based", {"i": "nontrigger"}, {})],
               "conns": [{"src": "A", "se": "e0", "sa": "o", "dst": "B", "de": "e0", "da": "i"},
                         {"src": "B", "se": "e0", "sa": "o", "dst": "C", "de": "e0", "da": "i"}]}
        remote = ["A", "C"]
    else:
        scn = {"sims": [sim("A", "time-based", {}, {"o": "persistent"}),
                        sim("B", "time-based", {"i": "nontrigger"}, {})],
               "conns": [{"src": "A", "se": "e0", "sa": "o", "dst": "B", "de": "e0", "da": "i"}]}
        remote = []                 # all in-process
    scn["until"] = until
    scn["config"] = {"cache": k not in (6, 7), "lazy": True, "mosaik_config": {"start_timeout": 90, "stop_timeout": 5}}
    return scn, remote


class SnapLoop(asyncio.SelectorEventLoop):
    """Plain selector loop that snapshots what is still pending when it is closed."""

    def __init__(self):
        super().__init__()
        self.pending_at_close: Optional[List[str]] = None
        self.unhandled: List[str] = []
        self.set_exception_handler(self._on_exc)

    def _on_exc(self, loop, context):
        self.unhandled.append(str(context.get("message", ""))[:200])

    def close(self):
        if self.pending_at_close is None and not self.is_closed():
            try:
                self.pending_at_close = [t.get_name() + ":" + getattr(t.get_coro(), "__qualname__", "?")
                                         for t in asyncio.all_tasks(self) if not t.done()]
            except Exception:  # noqa: BLE001
                self.pending_at_close = ["<snapshot failed>"]
        super().close()


def pid_state(pid: int) -> Optional[str]:
    try:
        with open(f"/proc/{pid}/stat") as f:
            return f.read().rsplit(")", 1)[1].split()[0]
    except Exception:  # noqa: BLE001
        return None


def run_fault_case(scn: dict, remote: List[str], fault: Optional[dict], watchdog_s: float = 40.0) -> dict:
    vbuild.setup_logging()
    rec = vsims.Recorder()
    vsims.set_recorder(rec)
    del vbuild.LOGS[:]
    rdir = tempfile.mkdtemp(prefix="vlab-c14-")
    scn = json.loads(json.dumps(scn))
    if not fault:
        for s in scn["sims"]:
            s["beh"].pop("slow_async_get_data", None)     # the fault-free run (request counting) must complete
    if fault:
        for s in scn["sims"]:
            if s["sid"] == fault["sid"]:
                s["fault"] = {"mode": "crash", "at_request": fault["r"], "how": fault["how"], "linger": 0.3}
                if scn.get("fault_delay"):
                    s["fault"]["delay"] = scn["fault_delay"]
    cfg = scn["config"]
    cfg["remote_sims"] = remote
    cfg["remote_max_sleep"] = 0.002
    out: Dict[str, Any] = {"outcome": None}
    world = None
    loop = SnapLoop()
    asyncio.set_event_loop(loop)

    def on_alarm(signum, frame):
        try:
            # where every task is waiting: the witness of a hang
            out["hang_tasks"] = [f"{t.get_name()}: " + " <- ".join(
                f"{fr.f_code.co_filename.split('/')[-1]}:{fr.f_lineno}:{fr.f_code.co_name}" for fr in t.get_stack(limit=4))
                for t in asyncio.all_tasks(loop) if not t.done()][:12]
        except Exception:  # noqa: BLE001
            pass
        raise Watchdog(f"no result after {watchdog_s}s")

    old = signal.signal(signal.SIGALRM, on_alarm)
    t0 = _time.time()
    with warnings.catch_warnings(record=True) as wlist:
        warnings.simplefilter("always")
        signal.setitimer(signal.ITIMER_REAL, watchdog_s)
        try:
            try:
                world, ents, conn_results = vbuild.build_world(scn, loop, transport="remote", remote_dir=rdir)
                out["t_built"] = _time.time()
                world.run(until=scn["until"], print_progress=False)
                out["outcome"] = {"kind": "returned"}
            except Watchdog as e:
                out["outcome"] = {"kind": "hang", "msg": str(e)}
            except BaseException as e:  # noqa: BLE001
                if isinstance(e, KeyboardInterrupt):
                    raise
                tb = traceback.extract_tb(e.__traceback__)
                out["outcome"] = {"kind": "raised", "type": type(e).__name__, "msg": str(e)[:300],
                                  "where": [f"{f.filename.split('/')[-1]}:{f.lineno}:{f.name}" for f in tb[-3:]]}
        finally:
            signal.setitimer(signal.ITIMER_REAL, 0)
        out["elapsed_run_s"] = round(_time.time() - out.get("t_built", t0), 3)
        out["loop_closed_after_run"] = loop.is_closed()
        out["pending_at_close"] = loop.pending_at_close
        # if run() left the loop open (hang), clean up ourselves so that the next case is not affected
        if world is not None and not loop.is_closed():
            signal.setitimer(signal.ITIMER_REAL, 10)
            try:
                world.shutdown()
            except BaseException as e:  # noqa: BLE001
                out["cleanup_error"] = f"{type(e).__name__}: {e}"[:200]
            finally:
                signal.setitimer(signal.ITIMER_REAL, 0)
        signal.signal(signal.SIGALRM, old)
        world = None
        gc.collect()
        gc.collect()
        out["resource_warnings"] = [str(w.message)[:160] for w in wlist if issubclass(w.category, ResourceWarning)]
        out["never_awaited"] = [str(w.message)[:160] for w in wlist if "never awaited" in str(w.message)]
    out["unhandled"] = list(loop.unhandled)
    # processes: wait (bounded) for them to disappear
    logs = read_remote_logs(rdir)
    pids = {sid: next((e["pid"] for e in evs if e.get("op") == "init"), None) for sid, evs in logs.items()}
    deadline = _time.time() + 15.0
    states = {}
    while True:
        states = {sid: pid_state(p) for sid, p in pids.items() if p}
        if all(st in (None, "Z") for st in states.values()) or _time.time() > deadline:
            break
        _time.sleep(0.05)
    out["proc_states"] = states
    for sid, st in states.items():
        if st not in (None, "Z"):
            try:
                os.kill(pids[sid], signal.SIGKILL)
            except Exception:  # noqa: BLE001
                pass
    # reap zombies of this worker
    try:
        while True:
            p, _ = os.waitpid(-1, os.WNOHANG)
            if p == 0:
                break
    except ChildProcessError:
        pass
    logs = read_remote_logs(rdir)
    out["remote_events"] = logs
    out["local_events"] = rec.events
    out["logs"] = list(vbuild.LOGS)
    shutil.rmtree(rdir, ignore_errors=True)
    return out


def count_requests(out: dict) -> Dict[str, int]:
    n: Dict[str, int] = Counter()
    for sid, evs in out["remote_events"].items():
        n[sid] += sum(1 for e in evs if e.get("op") == "call")
    for e in out["local_events"]:
        if e.get("op") == "call":
            n[e["sid"]] += 1
    return dict(n)


def finalize_counts(out: dict) -> Dict[str, int]:
    n: Dict[str, int] = Counter()
    for sid, evs in out["remote_events"].items():
        n[sid] += sum(1 for e in evs if e.get("op") == "finalize")
    for e in out["local_events"]:
        if e.get("op") == "finalize":
            n[e["sid"]] += 1
    return dict(n)


def judge(scn: dict, remote: List[str], fault: dict, out: dict) -> List[dict]:
    v: List[dict] = []
    o = out["outcome"]
    fired = any(e.get("op") == "fault" for evs in out["remote_events"].values() for e in evs) or \
        any(e.get("op") == "fault" for e in out["local_events"])
    if not fired:
        return [{"kind": "_not_fired"}]
    desc = {"fault": fault, "remote": remote}
    if o["kind"] == "hang":
        wt = out.get("hang_tasks") or []
        n_handlers = sum(1 for t in wt if "_handle_remote_requests" in t)
        n_readers = sum(1 for t in wt if "_receive_forever" in t)
        v.append(dict(desc, kind="run_hangs_after_fault", msg=o.get("msg"), waiting_tasks=wt,
                      # a RemoteProxy still waiting for requests of a channel whose reader task is gone
                      request_handlers_whose_channel_reader_is_gone=max(0, n_handlers - n_readers)))
        return v
    if o["kind"] == "returned":
        # allowed only as "logged remote error"
        served = sum(1 for e in out["remote_events"].get(fault["sid"], []) if e.get("op") == "ret")
        all_served = fault.get("how") == "exit_idle" and (
            fault.get("after_its_last_request") or served >= fault.get("requests_in_fault_free_run", 1 << 30))
        # (a process that dies only after it has answered every request of the run is not needed any more)
        if not any(l["level"] == "ERROR" for l in out["logs"]) and not all_served:
            v.append(dict(desc, kind="run_returned_normally_without_error"))
    fin = finalize_counts(out)
    for s in scn["sims"]:
        sid = s["sid"]
        if sid == fault["sid"]:
            continue
        if fin.get(sid, 0) != 1:
            v.append(dict(desc, kind="survivor_not_finalized_exactly_once", survivor=sid,
                          finalize_calls=fin.get(sid, 0), survivor_remote=sid in remote))
    # remote survivors must have *received* 'stop' (recorded on the wire by the harness in the simulator
    # process), not just seen their connection drop
    for s in scn["sims"]:
        sid = s["sid"]
        if sid == fault["sid"] or sid not in remote:
            continue
        n_stop = sum(1 for e in out["remote_events"].get(sid, []) if e.get("op") == "stop_received")
        if n_stop != 1:
            v.append(dict(desc, kind="survivor_did_not_receive_stop_exactly_once", survivor=sid, stop_requests=n_stop))
    for sid, st in out["proc_states"].items():
        if st not in (None, "Z"):
            v.append(dict(desc, kind="simulator_process_left_running", sid=sid, state=st))
    if not out["loop_closed_after_run"]:
        v.append(dict(desc, kind="event_loop_not_closed"))
    if out.get("pending_at_close"):
        v.append(dict(desc, kind="pending_tasks_at_loop_close", tasks=sorted(set(out["pending_at_close"]))[:6],
                      n=len(out["pending_at_close"])))
    if out.get("never_awaited"):
        v.append(dict(desc, kind="coroutine_never_awaited", warnings=out["never_awaited"][:3]))
    if out.get("unhandled"):
        v.append(dict(desc, kind="unhandled_error_in_event_loop", messages=out["unhandled"][:3]))
    socks = [w for w in out["resource_warnings"] if "socket" in w or "transport" in w]
    if socks:
        v.append(dict(desc, kind="unclosed_socket_or_transport", warnings=socks[:3]))
    # requests after finalize (a finalized simulator is called again)
    for sid, evs in list(out["remote_events"].items()) + [(None, out["local_events"])]:
        seen_fin = set()
        for e in evs:
            s2 = e.get("sid")
            if e.get("op") == "finalize":
                seen_fin.add(s2)
            elif e.get("op") == "call" and s2 in seen_fin:
                v.append(dict(desc, kind="request_after_finalize", sid=s2, request=e.get("kind"), time=e.get("time")))
                break
    return v



GEN_HOWS = ["raise", "raise_TypeError", "raise_ValueError", "raise_KeyError", "raise_ConnectionError",
            "raise_AssertionError", "raise_CancelledError"]


def judge_generated(scn: dict, tr: dict, fault: dict) -> List[dict]:
    """In-process generated scenario under the controlled loop: fault = crash fault of one simulator."""
    ev = tr["events"]
    fidx = next((e["i"] for e in ev if e.get("op") == "fault"), None)
    if fidx is None:
        return [{"kind": "_not_fired"}]
    desc = {"fault": fault, "engine": "generated_inprocess"}
    v: List[dict] = []
    o = tr["outcome"]
    if o["kind"] == "ok":
        v.append(dict(desc, kind="run_returned_normally_without_error"))
    elif o.get("type") in ("Deadlock", "Livelock", "BudgetExceeded"):
        v.append(dict(desc, kind="run_hangs_after_fault", msg=f"{o.get('type')}: {o.get('msg', '')[:160]}"))
        return v
    if tr.get("shutdown_error"):
        v.append(dict(desc, kind="shutdown_failed", error=tr["shutdown_error"]))
    fin: Dict[str, int] = Counter(e["sid"] for e in ev if e.get("op") == "finalize")
    for s_ in scn["sims"]:
        sid = s_["sid"]
        if sid == fault["sid"]:
            if fin.get(sid, 0) > 1:
                v.append(dict(desc, kind="failed_simulator_finalized_more_than_once", finalize_calls=fin[sid]))
            continue
        if fin.get(sid, 0) != 1:
            v.append(dict(desc, kind="survivor_not_finalized_exactly_once", survivor=sid, finalize_calls=fin.get(sid, 0),
                          survivor_remote=False))
    seen_fin = set()
    for e in ev:
        s2 = e.get("sid")
        if e.get("op") == "finalize":
            seen_fin.add(s2)
        elif s2 in seen_fin and e.get("op") in ("call", "ret", "async", "async_ret"):
            v.append(dict(desc, kind="request_after_finalize" if e["op"] == "call" else "simulator_active_after_finalize",
                          sid=s2, request=e.get("kind"), time=e.get("time"), op=e["op"]))
            break
    # the failed simulator gets no further request after the failing one
    later = [e for e in ev if e["i"] > fidx and e.get("sid") == fault["sid"] and e.get("op") == "call"]
    if later:
        v.append(dict(desc, kind="failed_simulator_got_further_requests",
                      requests=[(e["kind"], e.get("time")) for e in later][:4]))
    if not tr.get("loop_closed", True):
        v.append(dict(desc, kind="event_loop_not_closed"))
    if tr.get("pending_at_close"):
        v.append(dict(desc, kind="pending_tasks_at_loop_close", tasks=sorted(set(tr["pending_at_close"]))[:6],
                      n=len(tr["pending_at_close"])))
    if tr.get("loop_unhandled"):
        v.append(dict(desc, kind="unhandled_error_in_event_loop", messages=tr["loop_unhandled"][:3]))
    na = [w for w in tr.get("pywarnings", []) + tr.get("late_warnings", []) if "never awaited" in w]
    if na:
        v.append(dict(desc, kind="coroutine_never_awaited", warnings=na[:3]))
    return v


def run_generated_case(scn: dict, sched: dict) -> dict:
    import gc
    import warnings
    from ..build import run_case
    with warnings.catch_warnings(record=True) as wl:
        warnings.simplefilter("always")
        tr = run_case(scn, dict(sched, keep_tasks=True))
        gc.collect()
    tr["late_warnings"] = [f"{w.category.__name__}: {str(w.message)[:200]}" for w in wl]
    return tr


def two_source_agent(i: int) -> dict:
    """An agent that asks mosaik for data of TWO source simulators in one asynchronous get_data call (uncached
    when the cache is off): the sources' answers to that call are requests of their own."""
    n_src = 2 + i % 2
    srcs = [sim(f"A{j}", "time-based", {}, {"o": "persistent"}) for j in range(n_src)]
    agent = sim("B", "time-based", {f"i{j}": "nontrigger" for j in range(n_src)}, {},
                agent={"targets": [], "p_set": 0.0, "get": [[f"A{j}.e0", "o"] for j in range(n_src)], "p_get": 1.0})
    watcher = sim("C", "time-based", {"i": "nontrigger"}, {})
    conns = [{"src": f"A{j}", "se": "e0", "sa": "o", "dst": "B", "de": "e0", "da": f"i{j}", "async": True}
             for j in range(n_src)]
    conns.append({"src": "A0", "se": "e0", "sa": "o", "dst": "C", "de": "e0", "da": "i"})
    return {"sims": srcs + [agent, watcher], "conns": conns, "until": 3,
            "config": {"cache": bool(i % 4 >= 2), "lazy": True}}


def run_generated(job: dict, res: dict, viol) -> None:
    """Engine A part: generated scenarios, every (simulator, request index < cap), early and late failure,
    rotating exception class and schedule policy."""
    from ..gen import PROFILES, gen_scenario
    from ._enga import POLICY_CYCLE, order_hash, scn_hash
    C = res["counters"]
    W, w = job["nworkers"], job["windex"]
    seed = job["seed"]
    for i in range(w, job["gen_scenarios"], W):
        pname = job["gen_profiles"][i % len(job["gen_profiles"])]
        if i % 8 == 5:
            scn = two_source_agent(i // 8)
            C["gen_scenarios_agent_asking_several_sources"] += 1
        else:
            scn = gen_scenario(H(seed, "c14gen", pname, i) % (1 << 48), PROFILES[pname])
            scn["until"] = min(scn["until"], 4)
        base = run_generated_case(scn, {"policy": "random", "seed": i})
        res["evaluations"] += 1
        if base["outcome"]["kind"] != "ok":
            C["gen_baseline_not_ok"] += 1      # e.g. C05's open findings; nothing to inject into
            continue
        C["gen_scenarios"] += 1
        if base.get("pending_at_close") or base.get("loop_unhandled"):
            viol({"kind": "fault_free_run_pending_tasks_at_loop_close", "engine": "generated_inprocess",
                  "tasks": (base.get("pending_at_close") or base.get("loop_unhandled"))[:4]},
                 {"generated": {"scn": scn, "sched": {"policy": "random", "seed": i}, "fault": None}})
        fin0 = Counter(e["sid"] for e in base["events"] if e.get("op") == "finalize")
        C["gen_fault_free_finalize_checked"] += len(scn["sims"])
        for s_ in scn["sims"]:
            if fin0.get(s_["sid"], 0) != 1:
                viol({"kind": "fault_free_run_finalize_count", "engine": "generated_inprocess", "sid": s_["sid"],
                      "finalize_calls": fin0.get(s_["sid"], 0)},
                     {"generated": {"scn": scn, "sched": {"policy": "random", "seed": i}, "fault": None}})
        nreq: Dict[str, int] = Counter(e["sid"] for e in base["events"] if e.get("op") == "call")
        case = 0
        for s_ in scn["sims"]:
            sid = s_["sid"]
            for r in range(min(nreq.get(sid, 0), job["gen_max_requests"])):
                for late in (False, True):
                    case += 1
                    how = GEN_HOWS[(i + case) % len(GEN_HOWS)]
                    fault = {"sid": sid, "r": r, "how": how, "late": late}
                    scn_f = dict(scn)
                    scn_f["sims"] = [dict(x, fault={"mode": "crash", "at_request": r, "how": how, "late": late})
                                     if x["sid"] == sid else x for x in scn["sims"]]
                    sched = dict(POLICY_CYCLE[(i + case) % len(POLICY_CYCLE)])
                    sched["seed"] = H(seed, "c14gen", i, case) % (1 << 31)
                    tr = run_generated_case(scn_f, sched)
                    res["evaluations"] += 1
                    C["gen_fault_cases"] += 1
                    vs = judge_generated(scn_f, tr, fault)
                    if vs and vs[0]["kind"] == "_not_fired":
                        C["gen_fault_not_reached"] += 1
                        continue
                    C["gen_faults_fired"] += 1
                    C["gen_late" if late else "gen_early"] += 1
                    fk = next((e.get("kind") for e in tr["events"] if e.get("op") == "fault"), "?")
                    C["gen_fault_in_" + str(fk)] += 1
                    C["gen_how_" + how] += 1
                    C["gen_survivors_checked"] += len(scn["sims"]) - 1
                    fi = next(e["i"] for e in tr["events"] if e.get("op") == "fault")
                    open_calls = Counter()
                    for e in tr["events"]:
                        if e["i"] >= fi:
                            break
                        if e.get("op") == "call" and e.get("kind") in ("step", "get_data", "setup_done"):
                            open_calls[e["sid"]] += 1
                        elif e.get("op") == "ret" and e.get("kind") in ("step", "get_data", "setup_done"):
                            open_calls[e["sid"]] -= 1
                    n_inflight = sum(1 for s2, n2 in open_calls.items() if n2 > 0 and s2 != sid)
                    if n_inflight:
                        C["gen_faults_with_other_simulators_in_flight"] += 1
                    res["hashes"].add(H(scn_hash(scn), sid, r, how, late, order_hash(tr["events"])) % (1 << 52))
                    if not vs:
                        C["gen_contained"] += 1
                        if len(res["samples"]) < 3 and n_inflight and case % 11 == 0:
                            res["samples"].append({"engine": "generated_inprocess", "fault": fault, "fault_in": fk,
                                                   "others_in_flight_at_fault": n_inflight,
                                                   "outcome": {k2: tr["outcome"].get(k2) for k2 in ("kind", "type", "msg")},
                                                   "finalize_calls": dict(Counter(e["sid"] for e in tr["events"]
                                                                                  if e.get("op") == "finalize")),
                                                   "pending_tasks_at_loop_close": tr.get("pending_at_close")})
                    for vv in vs:
                        rs = dict(sched, orig_policy=sched["policy"], policy="replay", schedule=tr["schedule"])
                        viol(vv, {"generated": {"scn": scn_f, "sched": rs, "fault": fault}})


PLAIN_EXCS = ["RuntimeError", "StopIteration", "StopAsyncIteration", "LookupError", "OSError",
              "EOFError", "CancelledError", "TimeoutError", "ArithmeticError"]


def run_plain_inprocess(C: Counter, viol, only=None):
    """Ordinary in-process simulators (plain methods, no generators): F fails at request r with exception class X while
    connected to O (F -> O or O -> F).  run() must raise, O is finalized exactly once, the loop is closed, nothing pending."""
    import asyncio
    import mosaik
    import warnings
    from .. import stubs
    from ..build import setup_logging
    setup_logging()

    class SnapLoop(asyncio.SelectorEventLoop):
        pending_at_close = None

        def close(self):
            if not self.is_closed() and self.pending_at_close is None:
                try:
                    self.pending_at_close = [repr(t)[:200] for t in asyncio.all_tasks(self) if not t.done()]
                except Exception:  # noqa: BLE001
                    self.pending_at_close = []
            super().close()

    for direction in ("F->O", "O->F"):
        for typ in ("hybrid", "time-based"):
            for exc in PLAIN_EXCS:
                for r in range(0, 7):
                    case = {"engine": "plain_inprocess", "direction": direction, "type": typ, "exception": exc, "request": r}
                    if only and only != case:
                        continue
                    stubs.PLAIN_LOG.clear()
                    loop = SnapLoop()
                    outcome = None
                    with warnings.catch_warnings():
                        warnings.simplefilter("ignore")
                        world = mosaik.World({"P": {"python": "vlab.stubs:PlainSim"}}, skip_greetings=True, asyncio_loop=loop)
                        try:
                            ff = world.start("P", sim_id="F", fail_at=r, exc=exc, typ=typ)
                            fo = world.start("P", sim_id="O", typ=typ)
                            ef, eo = ff.M(), fo.M()
                            if direction == "F->O":
                                world.connect(ef, eo, ("o", "i"))
                            else:
                                world.connect(eo, ef, ("o", "i"))
                            world.run(until=3)
                            outcome = "returned"
                        except BaseException as e:  # noqa: BLE001
                            outcome = f"raised {type(e).__name__}"
                            if isinstance(e, (KeyboardInterrupt, SystemExit)):
                                raise
                        finally:
                            try:
                                if not loop.is_closed():
                                    C["plain_loop_left_open"] += 1
                                    world.shutdown()
                            except BaseException:  # noqa: BLE001
                                pass
                    log = list(stubs.PLAIN_LOG)
                    faulted = any(x[1] == "fault" for x in log)
                    C["plain_inprocess_cases"] += 1
                    if not faulted:
                        C["plain_inprocess_fault_not_reached"] += 1
                        if outcome != "returned":
                            viol(dict(case, kind="fault_free_run_failed", outcome=outcome), {"plain": case})
                        continue
                    C["plain_inprocess_faults_injected"] += 1
                    C["plain_inprocess_exc_" + exc] += 1
                    fin_o = sum(1 for x in log if x[0] == "O" and x[1] == "finalize")
                    i_fault = next(i for i, x in enumerate(log) if x[1] == "fault")
                    later_f = [x for x in log[i_fault + 1:] if x[0] == "F" and x[1] in ("step", "get_data", "setup_done")]
                    if outcome == "returned":
                        viol(dict(case, kind="fault_swallowed_run_returned_normally", log_tail=log[-6:]), {"plain": case})
                    elif fin_o != 1:
                        viol(dict(case, kind="other_simulator_not_finalized_exactly_once", finalize_calls=fin_o, outcome=outcome),
                             {"plain": case})
                    elif later_f:
                        viol(dict(case, kind="failed_simulator_got_further_requests", requests=later_f[:3]), {"plain": case})
                    elif loop.pending_at_close:
                        viol(dict(case, kind="pending_tasks_at_loop_close", tasks=loop.pending_at_close[:3]), {"plain": case})
                    elif not loop.is_closed():
                        viol(dict(case, kind="loop_not_closed", outcome=outcome), {"plain": case})


def run_slice(job: dict) -> dict:
    from .. import findings
    KF = findings.load()
    res: Dict[str, Any] = {"evaluations": 0, "counters": Counter(), "hashes": set(), "violations": [],
                           "samples": [], "aborted": 0}
    C = res["counters"]
    W, w = job["nworkers"], job["windex"]
    stored = [0, 0]

    def viol(vv, replay):
        kf = findings.match(PROP, vv, KF)
        if kf is not None:
            C["known_" + kf["id"]] += 1
            if stored[0] < 2:
                stored[0] += 1
                res["violations"].append({"v": vv, "replay": replay})
            return
        C["violation_" + vv["kind"]] += 1
        C["unlisted_violations"] += 1
        if stored[1] < 10:
            stored[1] += 1
            res["violations"].append({"v": vv, "replay": replay})

    if w == 1 % W:
        run_plain_inprocess(C, viol)
        res["evaluations"] += C["plain_inprocess_cases"]
    cases = []
    Rk: Dict[int, Dict[str, int]] = {}
    for k in job["catalogue"]:
        scn, remote = catalogue(k, job["until"])
        # request counts are deterministic for the catalogue: compute once per worker (fault-free run)
        base = run_fault_case(scn, remote, None)
        res["evaluations"] += 1
        if base["outcome"]["kind"] != "returned":
            C["baseline_failed"] += 1
            res["aborted"] += 1
            continue
        # fault-free run must itself be clean
        if w == 0:
            clean = judge_clean(scn, remote, base)
            for vv in clean:
                viol(vv, {"catalogue": k, "fault": None, "until": job["until"]})
        R = count_requests(base)
        Rk[k] = R
        for s in scn["sims"]:
            sid = s["sid"]
            kinds = ["exit", "raise", "close", "exit_idle"] if sid in remote else \
                ["raise", "raise_TypeError", "raise_ValueError", "raise_KeyError", "raise_ConnectionError",
                 "raise_CancelledError"]
            for r in range(R.get(sid, 0)):
                if k == 7 and not (sid == "C" and r == 1):
                    continue      # everything after the agent's first request is unreachable here by construction
                for how in kinds:
                    for rep in range(job["repeat"]):
                        cases.append((k, sid, r, how, rep))
    for n, (k, sid, r, how, rep) in enumerate(cases):
        if n % W != w:
            continue
        scn, remote = catalogue(k, job["until"])
        fault = {"sid": sid, "r": r, "how": how}
        if how == "exit_idle":
            # the process answers request r and dies a moment later, while idle (or, if mosaik is quick, during the
            # next request); after its LAST request of the fault-free run nobody needs it any more
            fault["after_its_last_request"] = (r == Rk[k].get(sid, 0) - 1)
            fault["requests_in_fault_free_run"] = Rk[k].get(sid, 0)
        out = run_fault_case(scn, remote, fault, watchdog_s=15.0 if how == "exit_idle" else 40.0)
        res["evaluations"] += 1
        C["fault_cases"] += 1
        vs = judge(scn, remote, fault, out)
        if vs and vs[0]["kind"] == "_not_fired":
            C["fault_not_reached"] += 1
            continue
        if vs and vs[0]["kind"] == "run_hangs_after_fault" and findings.match(PROP, vs[0], KF) is None:
            # a hang is only a verdict if it reproduces alone (loaded machine) -- unless its witness (where every task
            # waits) already shows the listed mechanism: that one depends on how the OS reports the lost connection
            again = [run_fault_case(scn, remote, fault)["outcome"]["kind"] == "hang" for _ in range(2)]
            res["evaluations"] += 2
            if not all(again):
                C["hang_not_reproduced_inconclusive"] += 1
                continue
        C["faults_fired"] += 1
        C["kind_" + (how if sid in remote else "local_raise")] += 1
        C["how_" + how] += 1
        C["request_index_%d" % r] += 1
        C["survivors_checked"] += len(scn["sims"]) - 1
        C["processes_checked"] += len(out["proc_states"])
        C["zombies_awaiting_reaping"] += sum(1 for st in out["proc_states"].values() if st == "Z")
        C["max_elapsed_ms"] = max(C["max_elapsed_ms"], int(out["elapsed_run_s"] * 1000))
        C["outcome_" + out["outcome"]["kind"] + "_" + str(out["outcome"].get("type"))] += 1
        res["hashes"].add(H(k, sid, r, how) % (1 << 52))
        if not vs:
            C["contained"] += 1
        for vv in vs:
            viol(vv, {"catalogue": k, "fault": fault, "until": job["until"]})
        if len(res["samples"]) < 2 and n % 17 == 0:
            res["samples"].append({"catalogue": k, "fault": fault, "outcome": out["outcome"],
                                   "elapsed_run_s": out["elapsed_run_s"], "finalize_calls": finalize_counts(out),
                                   "process_states_after_grace": out["proc_states"],
                                   "pending_tasks_at_loop_close": out["pending_at_close"],
                                   "violations": [x["kind"] for x in vs]})
    run_generated(job, res, viol)
    res["hashes"] = list(res["hashes"])
    res["counters"] = dict(C)
    return res


def judge_clean(scn, remote, out) -> List[dict]:
    v = []
    fin = finalize_counts(out)
    for s in scn["sims"]:
        if fin.get(s["sid"], 0) != 1:
            v.append({"kind": "fault_free_run_finalize_count", "sid": s["sid"], "finalize_calls": fin.get(s["sid"], 0)})
    for s in scn["sims"]:
        if s["sid"] in remote:
            n_stop = sum(1 for e in out["remote_events"].get(s["sid"], []) if e.get("op") == "stop_received")
            if n_stop != 1:
                v.append({"kind": "fault_free_run_stop_not_received_exactly_once", "sid": s["sid"], "stop_requests": n_stop})
    for sid, st in out["proc_states"].items():
        if st not in (None, "Z"):
            v.append({"kind": "fault_free_run_process_left_running", "sid": sid})
    if out.get("pending_at_close"):
        v.append({"kind": "fault_free_run_pending_tasks_at_loop_close", "tasks": sorted(set(out["pending_at_close"]))[:6]})
    return v


def replay(rep: dict) -> List[dict]:
    r = rep["replay"]
    if "plain" in r:
        out: List[dict] = []
        run_plain_inprocess(Counter(), lambda vv, _r: out.append(vv), only=r["plain"])
        return out
    if "generated" in r:
        g = r["generated"]
        tr = run_generated_case(g["scn"], dict(g["sched"]))
        if g["fault"] is None:
            out = [{"kind": "fault_free_run_pending_tasks_at_loop_close", "tasks": tr.get("pending_at_close")}] \
                if tr.get("pending_at_close") or tr.get("loop_unhandled") else []
            fin0 = Counter(e["sid"] for e in tr["events"] if e.get("op") == "finalize")
            out += [{"kind": "fault_free_run_finalize_count", "sid": s_["sid"], "finalize_calls": fin0.get(s_["sid"], 0)}
                    for s_ in g["scn"]["sims"] if fin0.get(s_["sid"], 0) != 1]
            return out
        return [v for v in judge_generated(g["scn"], tr, g["fault"]) if v["kind"] != "_not_fired"]
    scn, remote = catalogue(r["catalogue"], r["until"])
    if r["fault"] is None:
        return judge_clean(scn, remote, run_fault_case(scn, remote, None))
    out = run_fault_case(scn, remote, r["fault"])
    return [v for v in judge(scn, remote, r["fault"], out) if v["kind"] != "_not_fired"]


def decide(m, tier):
    c = m["counters"]
    reasons = []
    if c.get("plain_inprocess_faults_injected", 0) < 100:
        reasons.append("plain in-process class: fewer than 100 faults injected")
    for k in ("kind_exit", "kind_raise", "kind_close", "kind_local_raise"):
        if c.get(k, 0) < 10:
            reasons.append(f"{k} < 10")
    if c.get("hang_not_reproduced_inconclusive", 0) > 3:
        reasons.append("more than 3 non-reproducible hangs (loaded machine?)")
    if c.get("baseline_failed", 0):
        reasons.append("a fault-free baseline run failed")
    if c.get("gen_faults_fired", 0) < 500:
        reasons.append("fewer than 500 faults fired in generated in-process scenarios")
    if c.get("gen_faults_with_other_simulators_in_flight", 0) < 100:
        reasons.append("fewer than 100 generated faults fired while another simulator had a request in flight")
    for k in ("gen_fault_in_setup_done", "gen_fault_in_step", "gen_fault_in_get_data", "gen_early", "gen_late"):
        if c.get(k, 0) < 30:
            reasons.append(f"{k} < 30")
    return ("inconclusive" if reasons else "held"), reasons


def evidence(m, tier, seed):
    return {"level": "fault_enumeration", "coverage": {
        "rule": "catalogue of 7 (thorough: 8) scenarios (one with simulators announcing API 2.x, i.e. wrapped in version adapters) with 2-4 simulators, remote (real processes over TCP) and "
                "in-process mixes; a fault-free run counts the requests R_S each simulator receives (setup_done, "
                "steps, get_data); then EVERY (simulator, request index < R_S, kind) with kind in {process exit, "
                "exception in handler, connection abort} for remote and exceptions {RuntimeError, TypeError, ValueError, "
                "KeyError, ConnectionError} for in-process simulators is "
                "run once (thorough: 3 times): run() must end (watchdog 40 s; a hang counts only if it reproduces "
                "twice), survivors finalized exactly once and - if remote - having received 'stop' on the wire exactly "
                "once, no simulator process left after a grace period, loop "
                "closed, no task pending at loop.close(), no unclosed socket/transport ResourceWarning, no never-awaited "
                "coroutine, no error reported to the loop's exception handler, no request "
                "after finalize; distinct_nontrivial = distinct (scenario, simulator, request index, kind) whose "
                "fault actually fired.  Second part (counters gen_*): generated scenarios (6 profiles, with groups, weak and "
                "time-shifted connections, async agents; every eighth one a fixed family with an agent that asks two or three sources in one asynchronous get_data call, cache on and off) in-process under the controlled loop: a fault-free run counts the "
                "requests; then every (simulator, request index < cap) fails once at the beginning of the request and once "
                "when its reply is due (other simulators may have started or finished requests in between), with a rotating "
                "exception class and schedule policy; expected: run() raises (no exact deadlock/livelock), survivors "
                "finalized exactly once, the failed simulator gets no further request, no request to and no activity of "
                "a finalized simulator, no task pending at loop.close() (the harness cancels nothing), nothing reported "
                "to the loop's exception handler, no never-awaited coroutine",
        "exhaustive": True,
        "obligations": m["counters"].get("faults_fired", 0),
    }, "assumptions": ["'promptly' = within the 40 s watchdog; elapsed times are recorded, not judged",
                       "finalize of a remote simulator is logged by the simulator process itself"]}
