"""C09 Same-time loop guard -- loop-length arithmetic over model labels."""
from __future__ import annotations

import itertools
import re
from collections import Counter
from typing import Any, Dict, List, Optional

from ..build import run_case
from ..gen import PROFILES, gen_scenario
from ..monitors import Analysis
from ..sims import H, canon
from ._enga import POLICY_CYCLE, order_hash, scn_hash

PROP = "C09"
HEADLINE = ["future_exit_cases", "spiral_cases", "canonical_cases", "canonical_settling", "canonical_exceeding", "never_settle_cases",
            "random_cases", "random_interrupted", "random_completed_with_substeps", "max_substeps_seen"]

PLACEMENTS = {
    "one_group": ((0,), (0,)),
    "inner_group": ((0, 0), (0, 0)),
    "nested": ((0, 0), (0,)),
    "siblings_in_group": ((0, 0), (0, 1)),
    "deep": ((0, 0, 0), (0, 0, 0)),
}


def plan(tier, seed, scale):
    q = tier == "quick"
    return {"n_cases": int((1200 if q else 400000) * scale), "Ms": [1, 2, 3, 4, 5, 6] if q else [1, 2, 3, 4, 5, 6, 8, 12],
            "until": 3, "timeout_s": 900 if q else 10800}


def canonical(pa, pb, N: Optional[int], M: int, until: int, extra_observer: Optional[tuple], cache: bool, lazy: bool,
              three: bool = False) -> dict:
    """A -> B plain, B -> A weak (with three: A -> B -> C plain, C -> A weak).  A performs N steps per
    time (N=None: never settles).  A steps itself to every time."""
    L = {"*": (N - 1) if N is not None else 0}
    beh_loop = {"seed": 1, "p_self": 0.0, "p_out": 1.0, "L": L, "never_settle": N is None}
    sims = [
        {"sid": "A", "type": "event-based", "path": list(pa), "entities": ["e0"], "ins": {"i": "trigger"},
         "outs": {"o": "nonpersistent"}, "initial_event": 0,
         "beh": dict(beh_loop, self_steps={str(t): t + 1 for t in range(until + 2)}, first_only=True)},
        {"sid": "B", "type": "event-based", "path": list(pb), "entities": ["e0"], "ins": {"i": "trigger"},
         "outs": {"o": "nonpersistent"}, "beh": dict(beh_loop)},
    ]
    conns = [{"src": "A", "se": "e0", "sa": "o", "dst": "B", "de": "e0", "da": "i"}]
    last = "B"
    if three:
        sims.append({"sid": "C", "type": "event-based", "path": list(pb), "entities": ["e0"], "ins": {"i": "trigger"},
                     "outs": {"o": "nonpersistent"}, "beh": dict(beh_loop)})
        conns.append({"src": "B", "se": "e0", "sa": "o", "dst": "C", "de": "e0", "da": "i"})
        last = "C"
    conns.append({"src": last, "se": "e0", "sa": "o", "dst": "A", "de": "e0", "da": "i", "weak": True})
    if extra_observer is not None:
        sims.append({"sid": "X", "type": "event-based", "path": list(extra_observer), "entities": ["e0"],
                     "ins": {"i": "trigger"}, "outs": {}, "beh": {"seed": 3}})
        conns.append({"src": "A", "se": "e0", "sa": "o", "dst": "X", "de": "e0", "da": "i"})
    return {"until": until, "sims": sims, "conns": conns,
            "config": {"cache": cache, "lazy": lazy, "max_loop_iterations": M,
                       # every other case sets World.max_loop_iterations after start() instead of in the constructor
                       "mli_late": bool((M + (N or 0) + len(pa) + int(three)) % 2)}}


GUARD_RE = re.compile(r"Simulator (\S+) has performed a sub-step more than (\d+) times")


def judge(scn: dict, tr: dict, a: Analysis, M: int) -> List[dict]:
    """Envelope every class has to satisfy."""
    out: List[dict] = []
    o = tr["outcome"]
    executed_max = 0
    demanded_over = []
    for sid, dd in a.D.items():
        for lab, d in dd.items():
            sub = max(lab[1:], default=0)
            if d["exec"] is not None:
                executed_max = max(executed_max, sub)
            if sub >= M and lab[0] < scn["until"]:
                demanded_over.append((sid, lab, d["exec"] is not None))
    if any(x[2] for x in demanded_over):
        out.append({"kind": "substep_beyond_bound_executed", "M": M,
                    "steps": [(s, list(l)) for s, l, e in demanded_over if e][:3]})
    if o["kind"] == "ok":
        if demanded_over:
            out.append({"kind": "loop_exceeding_bound_not_stopped", "M": M,
                        "demanded": [(s, list(l)) for s, l, e in demanded_over][:3]})
        for v in a.viol["C02"]:
            out.append(dict(v, kind="time_does_not_advance_normally_" + v["kind"]))
        return out
    msg = o.get("msg", "")
    mt = GUARD_RE.search(msg) if o.get("type") == "SimulationError" else None
    if mt is None:
        out.append({"kind": "failed_with_other_error", "type": o.get("type"), "msg": msg[:200], "where": o.get("where")})
        return out
    named = mt.group(1)
    if int(mt.group(2)) != M:
        out.append({"kind": "error_names_wrong_bound", "msg": msg[:200], "M": M})
    if not demanded_over:
        out.append({"kind": "settling_loop_interrupted", "M": M, "named": named, "msg": msg[:200],
                    "max_executed_subtime": executed_max})
    elif named not in {s for s, l, e in demanded_over}:
        out.append({"kind": "error_names_simulator_without_excess_substep", "named": named,
                    "demanded": [(s, list(l)) for s, l, e in demanded_over][:3]})
    return out


def run_slice(job: dict) -> dict:
    res: Dict[str, Any] = {"evaluations": 0, "counters": Counter(), "hashes": set(), "violations": [],
                           "samples": [], "aborted": 0}
    C = res["counters"]
    W, w = job["nworkers"], job["windex"]
    seed = job["seed"]
    until = job["until"]

    def viol(v, scn, sched, tr):
        C["violation_" + v["kind"]] += 1
        C["unlisted_violations"] += 1
        if len(res["violations"]) < 10:
            rs = dict(sched, orig_policy=sched.get("policy"), policy="replay", schedule=tr["schedule"])
            res["violations"].append({"v": v, "replay": {"scn": scn, "sched": rs, "M": scn["config"]["max_loop_iterations"]}})

    k = 0
    # ---- classes (i)-(iii): canonical loops, all (N, M) around the bound -----------------
    for M in job["Ms"]:
        for N in [n for n in range(M - 2, M + 3) if n >= 1] + [None]:
            for pname, (pa, pb) in PLACEMENTS.items():
                for three in (False, True):
                    for obs in (None, (), (1,), pa):
                        for v in range(2):
                            k += 1
                            if k % W != w:
                                continue
                            cache, lazy = bool(v), bool((k // W) % 2)
                            scn = canonical(pa, pb, N, M, until, obs, cache, lazy, three)
                            sched = dict(POLICY_CYCLE[k % len(POLICY_CYCLE)])
                            sched["seed"] = H(seed, k) % (1 << 31)
                            sched["max_decisions"] = 4000
                            tr = run_case(scn, sched)
                            a = Analysis(scn, tr)
                            res["evaluations"] += 1
                            C["canonical_cases"] += 1
                            C["placement_" + pname] += 1
                            for vv in judge(scn, tr, a, M):
                                viol(dict(vv, cls="canonical", N=N, placement=pname, three=three), scn, sched, tr)
                            per_time = Counter(st["time"] for st in a.steps["A"])
                            C["max_substeps_seen"] = max(C["max_substeps_seen"], max(per_time.values(), default=0))
                            res["hashes"].add(H(N, M, pname, three, obs, cache, lazy, order_hash(tr["events"])) % (1 << 52))
                            if N is None:
                                C["never_settle_cases"] += 1
                                if tr["outcome"]["kind"] == "ok":
                                    viol({"kind": "non_settling_loop_succeeded", "M": M, "placement": pname}, scn, sched, tr)
                                elif per_time.get(0, 0) != M:
                                    viol({"kind": "wrong_number_of_substeps_before_error", "M": M,
                                          "A_steps_at_time_0": per_time.get(0, 0)}, scn, sched, tr)
                            elif N <= M:
                                C["canonical_settling"] += 1
                                if tr["outcome"]["kind"] != "ok":
                                    viol({"kind": "settling_loop_interrupted", "N": N, "M": M, "placement": pname,
                                          "outcome": tr["outcome"]}, scn, sched, tr)
                                elif [per_time.get(t, 0) for t in range(until)] != [N] * until:
                                    viol({"kind": "wrong_number_of_substeps", "N": N, "M": M, "placement": pname,
                                          "A_steps_per_time": [per_time.get(t, 0) for t in range(until)]}, scn, sched, tr)
                            else:
                                C["canonical_exceeding"] += 1
                                if tr["outcome"]["kind"] == "ok":
                                    viol({"kind": "loop_exceeding_bound_not_stopped", "N": N, "M": M, "placement": pname},
                                         scn, sched, tr)
                                elif per_time.get(0, 0) != M or any(t > 0 for t in per_time):
                                    viol({"kind": "wrong_number_of_substeps_before_error", "N": N, "M": M,
                                          "A_steps_per_time": dict(per_time)}, scn, sched, tr)
                            if len(res["samples"]) < 2 and k % 301 == 0:
                                res["samples"].append({"class": "canonical", "N_steps_per_time": N, "max_loop_iterations": M,
                                                       "placement": pname, "three_members": three, "observer": obs,
                                                       "outcome": tr["outcome"]["kind"], "error": tr["outcome"].get("msg", "")[:90],
                                                       "A_steps_per_time": dict(per_time)})
    # ---- class (v): no same-time loop at all, but a loop closed over *time* by a time-shifted connection
    # whose other hop is weak: every time step has exactly one step per member, for more time steps than
    # max_loop_iterations ("loops that settle within the bound are never interrupted, and simulation time
    # then advances normally") ------------------------------------------------------------------------------
    for M in [m_ for m_ in job["Ms"] if m_ >= 2]:      # (the weak hop itself gives sub-time 1: needs M >= 2)
        for pname, (pa, pb) in PLACEMENTS.items():
            for shift in (1, 2):
                for v in range(2):
                    k += 1
                    if k % W != w:
                        continue
                    n_t = M * shift + 3 * shift
                    scn = canonical(pa, pb, 1, M, n_t, None, bool(v), bool(k % 2))
                    # replace the closing hop's partner: A -> B weak, B -> A time-shifted
                    scn["conns"] = [{"src": "A", "se": "e0", "sa": "o", "dst": "B", "de": "e0", "da": "i", "weak": True},
                                    {"src": "B", "se": "e0", "sa": "o", "dst": "A", "de": "e0", "da": "i", "shift": shift}]
                    for s_ in scn["sims"]:
                        s_["beh"] = {"seed": 1, "p_self": 0.0, "p_out": 1.0, "L": {"*": 5}}
                    sched = dict(POLICY_CYCLE[k % len(POLICY_CYCLE)])
                    sched["seed"] = H(seed, k) % (1 << 31)
                    sched["max_decisions"] = 4000
                    tr = run_case(scn, sched)
                    a = Analysis(scn, tr)
                    res["evaluations"] += 1
                    C["spiral_cases"] += 1
                    per = Counter((st["time"]) for st in a.steps["A"])
                    if tr["outcome"]["kind"] != "ok":
                        viol({"kind": "settling_loop_interrupted", "cls": "spiral", "M": M, "shift": shift,
                              "placement": pname, "outcome": tr["outcome"], "note": "one sub-step per time step only"},
                             scn, sched, tr)
                    elif any(n != 1 for n in per.values()) or sorted(per) != list(range(0, n_t, shift)):
                        viol({"kind": "wrong_number_of_substeps", "cls": "spiral", "M": M, "A_steps_per_time": dict(per)},
                             scn, sched, tr)
                    res["hashes"].add(H("spiral", M, pname, shift, v, order_hash(tr["events"])) % (1 << 52))
    # ---- class (vi): the loop is left by an output time in the future (still providing the weak attribute):
    # the next time step starts from sub-time 0 again, for more time steps than M/N -------------------------------
    for N in (1, 2, 3):
        for pname, (pa, pb) in PLACEMENTS.items():
            for v in range(2):
                k += 1
                if k % W != w:
                    continue
                M = N + 3
                n_t = 3 * M
                scn = canonical(pa, pb, N + 1, M, n_t, None, bool(v), bool(k % 2))
                for s_ in scn["sims"]:
                    s_["beh"] = {"seed": 1, "p_self": 0.0, "p_out": 1.0, "L": {"*": N}}
                scn["sims"][1]["beh"]["future_at_k"] = N - 1       # B's N-th answer is stamped t+1
                sched = dict(POLICY_CYCLE[k % len(POLICY_CYCLE)])
                sched["seed"] = H(seed, k) % (1 << 31)
                sched["max_decisions"] = 4000
                tr = run_case(scn, sched)
                a = Analysis(scn, tr)
                res["evaluations"] += 1
                C["future_exit_cases"] += 1
                for vv in judge(scn, tr, a, M):
                    viol(dict(vv, cls="future_exit", N=N, placement=pname), scn, sched, tr)
                times = sorted({st["time"] for st in a.steps["A"]})
                if tr["outcome"]["kind"] == "ok" and times != list(range(n_t)):
                    viol({"kind": "time_does_not_advance_normally", "cls": "future_exit", "N": N, "M": M,
                          "A_times": times[:12]}, scn, sched, tr)
                res["hashes"].add(H("future_exit", N, pname, v, order_hash(tr["events"])) % (1 << 52))
    # ---- class (iv): generated multi-weak / nested loops with small bounds -----------------
    for i in range(w, job["n_cases"], W):
        prof = dict(PROFILES["sibling" if i % 2 else "core"])
        prof["Lmax"] = 4
        scn = gen_scenario(H(seed, "c09", i) % (1 << 48), prof)
        M = 1 + (i // 2) % 4
        scn["config"]["max_loop_iterations"] = M
        sched = dict(POLICY_CYCLE[i % len(POLICY_CYCLE)])
        sched["seed"] = H(seed, "c09s", i) % (1 << 31)
        sched["max_decisions"] = 4000
        tr = run_case(scn, sched)
        a = Analysis(scn, tr)
        res["evaluations"] += 1
        C["random_cases"] += 1
        if tr["outcome"]["kind"] == "error" and a.viol["C05"]:
            # failures that are C05's open known findings (classified with C05's own annotation and predicates)
            # are not this property's subject
            from . import c05
            from .. import findings
            c05.post(scn, tr, a)
            if all(findings.match("C05", v5) is not None for v5 in a.viol["C05"]):
                C["random_skipped_known_c05_finding"] += 1
                continue
        for vv in judge(scn, tr, a, M):
            viol(dict(vv, cls="generated"), scn, sched, tr)
        if tr["outcome"]["kind"] != "ok":
            C["random_interrupted"] += 1
        elif a.stats.get("substeps"):
            C["random_completed_with_substeps"] += 1
        res["hashes"].add(H(scn_hash(scn), M, order_hash(tr["events"])) % (1 << 52))
    res["hashes"] = list(res["hashes"])
    res["counters"] = dict(C)
    return res


def replay(rep: dict) -> List[dict]:
    r = rep["replay"]
    tr = run_case(r["scn"], dict(r["sched"]))
    a = Analysis(r["scn"], tr)
    if rep["violation"].get("cls") == "generated" and tr["outcome"]["kind"] == "error" and a.viol["C05"]:
        from . import c05
        from .. import findings
        c05.post(r["scn"], tr, a)
        if all(findings.match("C05", v5) is not None for v5 in a.viol["C05"]):
            return []
    out = judge(r["scn"], tr, a, r["M"])
    v = rep["violation"]
    if not out and v.get("kind", "").startswith(("wrong_number", "non_settling", "settling_loop", "loop_exceeding")):
        per_time = Counter(st["time"] for st in a.steps.get("A", []))
        N, M = v.get("N"), v.get("M")
        if v["kind"] == "wrong_number_of_substeps" and [per_time.get(t, 0) for t in range(r["scn"]["until"])] != [N] * r["scn"]["until"]:
            out.append(v)
        if v["kind"] == "wrong_number_of_substeps_before_error" and per_time.get(0, 0) != M:
            out.append(v)
        if v["kind"] in ("non_settling_loop_succeeded", "loop_exceeding_bound_not_stopped") and tr["outcome"]["kind"] == "ok":
            out.append(v)
        if v["kind"] == "settling_loop_interrupted" and tr["outcome"]["kind"] != "ok":
            out.append(v)
    return out


def decide(m, tier):
    c = m["counters"]
    reasons = []
    if c.get("canonical_settling", 0) < 300 or c.get("canonical_exceeding", 0) < 300:
        reasons.append("fewer than 300 canonical cases on one side of the bound")
    if c.get("never_settle_cases", 0) < 100:
        reasons.append("fewer than 100 non-settling cases")
    if c.get("random_interrupted", 0) < 30 or c.get("random_completed_with_substeps", 0) < 30:
        reasons.append("generated class: fewer than 30 interrupted or 30 completed runs with sub-steps")
    return ("inconclusive" if reasons else "held"), reasons


def evidence(m, tier, seed):
    return {"level": "exploration", "coverage": {
        "rule": "canonical weak loops (2 or 3 members) with N sub-steps per time, all N in M-2..M+2 and non-settling, "
                "max_loop_iterations M in 1..6 (thorough: also 8, 12), 5 placements (one group, inner group, nested, "
                "siblings inside a group, depth 3), with/without an observer in the root / a sibling group / the "
                "same group, cache/lazy on/off, bound given to World() or assigned to world.max_loop_iterations after "
                "start(), rotating schedule policies: N<=M => normal return with exactly N "
                "sub-steps per time and time advancing; N>M => SimulationError naming a member, exactly M sub-steps "
                "executed; loops closed over time by a time-shifted hop (one sub-step per time step, more time steps "
                "than M) must never be interrupted; generated multi-weak/nested scenarios with M in 1..4: envelope only; "
                "distinct_nontrivial = distinct (case parameters, global event order)",
        "exhaustive": False,
        "obligations": m["counters"].get("canonical_cases", 0) + m["counters"].get("random_cases", 0),
    }, "assumptions": ["the code counts weak hops (sub-time), the statement counts sub-steps; they coincide for the "
                       "canonical classes; for generated scenarios only what both readings agree on is asserted"]}
