"""C02 Exact step set -- demanded-set bookkeeping (exactly once, order, range)."""
from ._enga import run_slice_mon, replay_mon, sizes

PROP = "C02"
HEADLINE = ["steps", "substeps", "trigger_demands", "trigger_while_dest_inflight",
            "trigger_demands_beyond_until", "self_steps_beyond_until", "future_output_times"]


def plan(tier, seed, scale):
    return {"n_cases": sizes(tier, scale, 2400, 60000), "variants": 4, "rt_every": 7,
            "profiles": ["events", "core", "events_flat", "chain", "deep", "par", "big", "flat", "wild", "sibling"],
            "remote_cases": int((32 if tier == "quick" else 1600) * scale),
            "dfs_cases": int((96 if tier == "quick" else 1600) * scale), "dfs_cap": 300 if tier == "quick" else 20000,
            "dfs_budget_s": 1.5 if tier == "quick" else 20.0,
            "timeout_s": 600 if tier == "quick" else 7200}


def obligations(st):
    return st.get("steps", 0)


def run_slice(job):
    return run_slice_mon(job, PROP, obligations)


def replay(rep):
    return replay_mon(rep, PROP)


def decide(m, tier):
    c = m["counters"]
    reasons = []
    if c.get("trigger_while_dest_inflight", 0) < 200:
        reasons.append("fewer than 200 triggers arrived while the destination was in flight")
    if c.get("future_output_times", 0) < 100:
        reasons.append("fewer than 100 outputs with a future output time")
    if c.get("substeps", 0) < 200:
        reasons.append("fewer than 200 sub-steps (same-time loops) executed")
    if m["aborted"] > 0.2 * max(1, m["evaluations"]):
        reasons.append("more than 20% of runs aborted")
    return ("inconclusive" if reasons else "held"), reasons


def evidence(m, tier, seed):
    return {"level": "exploration", "coverage": {
        "rule": "case = generated scenario x schedule policy x cache/lazy variant on the real scheduler; every "
                "step() call is matched online against the demanded set (time 0, initial events, returned next "
                "steps < until, delayed trigger outputs < until) and the set must be empty at the end of run(); "
                "distinct = hash(scenario, config, global event order); non-trivial = two simulators in flight "
                "at once and at least one step matched",
        "obligations": m["counters"].get("steps", 0),
    }, "assumptions": ["demanded set lives in label space (model arithmetic from the documentation)"]}
