"""C07 max_advance is a sound promise -- causal provenance of every step in the promised window."""
from ._enga import run_slice_mon, replay_mon, sizes

PROP = "C07"
HEADLINE = ["c07_promises", "c07_promises_nonempty_window", "c07_promises_with_other_sim_inflight",
            "c07_steps_in_window"]


def plan(tier, seed, scale):
    return {"n_cases": sizes(tier, scale, 2400, 60000), "variants": 4,
            "profiles": ["chain", "events", "core", "events_flat", "big", "deep", "wild", "sibling"],
            "remote_cases": int((32 if tier == "quick" else 1600) * scale),
            "dfs_cases": int((96 if tier == "quick" else 1600) * scale), "dfs_cap": 300 if tier == "quick" else 20000,
            "dfs_budget_s": 1.5 if tier == "quick" else 20.0,
            "timeout_s": 600 if tier == "quick" else 7200}


def obligations(st):
    return st.get("c07_promises", 0)


def run_slice(job):
    return run_slice_mon(job, PROP, obligations)


def replay(rep):
    return replay_mon(rep, PROP)


def decide(m, tier):
    c = m["counters"]
    reasons = []
    if c.get("c07_promises_with_other_sim_inflight", 0) < 500:
        reasons.append("fewer than 500 promises to a simulator with trigger inputs while another simulator was in flight")
    if c.get("c07_steps_in_window", 0) < 200:
        reasons.append("fewer than 200 later steps fell into a promised window (provenance never evaluated)")
    if m["aborted"] > 0.2 * max(1, m["evaluations"]):
        reasons.append("more than 20% of runs aborted")
    return ("inconclusive" if reasons else "held"), reasons


def evidence(m, tier, seed):
    return {"level": "exploration", "coverage": {
        "rule": "case = generated scenario x schedule policy x config variant; every step(t, max_advance=m) is a "
                "promise; every later step of that simulator in (t, m] must have no cause chain to a root that "
                "avoids the simulator's own steps at or after t; m <= until, m == until without connected trigger "
                "inputs; distinct = hash(scenario, config, global event order); non-trivial = two simulators in "
                "flight and at least one promise recorded",
        "obligations": m["counters"].get("c07_promises", 0),
    }, "assumptions": ["no lower bound on max_advance is asserted (the statement gives none)"]}
