"""C03 Data-flow fidelity -- reference data-flow model over the recorded history (unique values)."""
from ._enga import run_slice_mon, replay_mon, sizes

PROP = "C03"
HEADLINE = ["c03_steps_checked", "c03_slots_matched", "c03_persistent_slots", "c03_event_slots",
            "c03_init_slots", "c03_collapsed", "c03_tolerated_none", "c03_persistent_slots_value_announced_for_later_time",
            "runs_profile_data_flat", "runs_profile_flat"]


def plan(tier, seed, scale):
    # flat profiles cannot reach the sub-time mechanism of KF-subtime-data-path at all
    return {"n_cases": sizes(tier, scale, 3200, 80000), "variants": 4, "rt_every": 7,
            "profiles": ["data", "data_flat", "core", "flat", "par", "par_flat", "events", "events_flat", "deep", "big"],
            "remote_cases": int((32 if tier == "quick" else 1600) * scale),
            "dfs_cases": int((96 if tier == "quick" else 1600) * scale), "dfs_cap": 300 if tier == "quick" else 20000,
            "dfs_budget_s": 1.5 if tier == "quick" else 20.0,
            "timeout_s": 600 if tier == "quick" else 7200}


def obligations(st):
    return st.get("c03_slots_matched", 0)


def run_slice(job):
    return run_slice_mon(job, PROP, obligations)


def replay(rep):
    return replay_mon(rep, PROP)


def decide(m, tier):
    c = m["counters"]
    reasons = []
    for k, n in (("c03_persistent_slots", 2000), ("c03_event_slots", 2000), ("c03_init_slots", 300),
                 ("c03_collapsed", 20), ("c03_persistent_slots_value_announced_for_later_time", 100)):
        if c.get(k, 0) < n:
            reasons.append(f"{k} < {n}")
    if c.get("runs_cache_on", 0) < 100 or c.get("runs_cache_off", 0) < 100:
        reasons.append("cache on/off not both exercised")
    if m["aborted"] > 0.2 * max(1, m["evaluations"]):
        reasons.append("more than 20% of runs aborted")
    return ("inconclusive" if reasons else "held"), reasons


def evidence(m, tier, seed):
    return {"level": "exploration", "coverage": {
        "rule": "case = generated scenario x schedule policy x cache/lazy variant; at every step() the deep-copied "
                "inputs are compared slot by slot (dest entity, attr, source entity) with the reference data-flow "
                "model evaluated over all earlier get_data replies (persistent: latest due value or initial data; "
                "event: exactly once at the first step at or after its due label; latest wins per slot); distinct "
                "= hash(scenario, config, global event order); non-trivial = two simulators in flight and at "
                "least one input slot matched; profiles *_flat have no groups and cannot reach the known "
                "sub-time finding, there no classifier is consulted",
        "obligations": m["counters"].get("c03_steps_checked", 0),
    }, "assumptions": ["scenario envelope of DESIGN 2.1 (one connection per input slot; initial data on shifted/weak "
                       "persistent connections; no shifted/weak event connection into non-trigger inputs)"]}
