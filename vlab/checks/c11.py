"""C11 Connection validation and group scoping.

(A) decision table: real World.connect() for every (source attr kind x dest attr kind x connection kind x
    initial data x placement of the two simulators in the group tree); a rejected pair must leave no
    data-flow and no wait behind (observed in a run where the source is starved).
(B) group scoping end-to-end: scenarios with sibling/nested groups and weak loops run under the
    engine-A step-set and ordering monitors, whose labels identify groups by *path*."""
from __future__ import annotations

import itertools
import warnings
from collections import Counter
from typing import Any, Dict, List, Optional, Tuple

from ..build import run_case
from ..model import common
from ..sims import H
from ._enga import run_slice_mon

PROP = "C11"
HEADLINE = ["connect_cases", "expected_reject", "expected_accept", "rejected_pairs_run", "accepted_pairs_run",
            "placements_sibling", "placements_nested", "placements_same", "placements_root",
            "scoping_runs", "scoping_runs_with_sibling_groups", "scoping_substeps"]

PATHS = [(), (0,), (1,), (0, 0), (0, 1), (1, 0)]
SRC_ATTRS = {"p": "persistent", "e": "nonpersistent", "x": None}
DST_ATTRS = {"t": "trigger", "n": "nontrigger", "x": None}
CONNS = [("plain", {}), ("shift", {"shift": 1}), ("shift2", {"shift": 2, "shift_int": True}), ("weak", {"weak": True}),
         ("weak+shift", {"weak": True, "shift": 1}), ("weak+shift2", {"weak": True, "shift": 2, "shift_int": True})]


def plan(tier, seed, scale):
    q = tier == "quick"
    return {"n_cases": int((600 if q else 160000) * scale), "variants": 3, "profiles": ["sibling"],
            "run_every": 1 if not q else 2, "timeout_s": 900 if q else 10800}


def placement_kind(p, q):
    if p == q:
        return "root" if not p else "same"
    c = common(p, q)
    if c == min(len(p), len(q)):
        return "nested"
    return "sibling" if c < min(len(p), len(q)) and p and q else "nested"


def expected_problems(sa, da, ckind, has_init, p, q) -> List[str]:
    probs = []
    if SRC_ATTRS[sa] is None:
        probs.append("source attribute is not an output")
    if DST_ATTRS[da] is None:
        probs.append("destination attribute is not an input")
    if ckind != "plain" and DST_ATTRS[da] == "nontrigger" and not has_init:
        probs.append("shifted/weak into non-trigger input without initial data")
    if "weak" in ckind and common(p, q) == 0:
        probs.append("weak connection between simulators that share no group")
    return probs


def mk_pair_scn(p, q, same_sim: bool, conn: Optional[dict], cache: bool = True) -> dict:
    def sim(sid, path):
        return {"sid": sid, "type": "hybrid", "path": list(path), "entities": ["e0"],
                "ins": {"t": "trigger", "n": "nontrigger"}, "outs": {"p": "persistent", "e": "nonpersistent"},
                "beh": {"seed": 7, "p_self": 1.0, "horizon": 1, "p_out": 1.0, "Lmax": 1, "L": 1}}
    sims = [sim("A", p)] + ([] if same_sim else [sim("B", q)])
    return {"until": 3, "sims": sims, "conns": [conn] if conn else [], "allow_connect_errors": True,
            "config": {"cache": cache, "lazy": False}}


def table_cases():
    for p, q in itertools.product(PATHS, repeat=2):
        for same_sim in ((False, True) if p == q else (False,)):
            for sa in SRC_ATTRS:
                for da in DST_ATTRS:
                    for ckind, ckw in CONNS:
                        for has_init in (False, True):
                            yield p, q, same_sim, sa, da, ckind, ckw, has_init


def run_table_case(case, C: Counter, viol, do_run: bool, cache: bool = True, pre_connect: bool = False,
                   pre_reverse: bool = False, with_async: bool = False):
    p, q, same_sim, sa, da, ckind, ckw, has_init = case
    if same_sim:
        pre_connect = pre_reverse = with_async = False
    if same_sim and ckind == "plain":
        return  # an unresolved self-cycle: C06's subject; connect() itself accepts it
    dst = "A" if same_sim else "B"
    conn: Dict[str, Any] = {"src": "A", "se": "e0", "sa": sa, "dst": dst, "de": "e0", "da": da}
    conn.update(ckw)
    if has_init:
        conn["init"] = "INIT"
    if with_async:
        # the same call with async_requests=True: a refused call must not leave the asynchronous channel
        # (mutual waits, authorisation for set_data/get_data) behind either
        conn["async"] = True
        C["async_flag_cases"] += 1
    scn = mk_pair_scn(p, q, same_sim, conn, cache=cache)
    if pre_connect:
        # a sequence of calls: first an ordinary accepted connection between the same two simulators (other
        # ports), then the connection under test - only its acceptance/rejection is judged in this variant
        for s_ in scn["sims"]:
            s_["ins"]["t2"] = "trigger"
            s_["outs"]["e2"] = "nonpersistent"
        scn["conns"] = [{"src": "A", "se": "e0", "sa": "e2", "dst": "B", "de": "e0", "da": "t2"}, conn]
        do_run = False
        C["sequence_cases"] += 1
    if pre_reverse:
        # before: an accepted plain connection in the OTHER direction (B -> A, other ports).  A connection under test
        # that is refused must not leave anything behind that closes a cycle with it: the run still has to start.
        for s_ in scn["sims"]:
            s_["ins"]["t2"] = "trigger"
            s_["outs"]["e2"] = "nonpersistent"
        scn["conns"] = [{"src": "B", "se": "e0", "sa": "e2", "dst": "A", "de": "e0", "da": "t2"}, conn]
        do_run = True
        C["reverse_sequence_cases"] += 1
    probs = expected_problems(sa, da, ckind, has_init, p, q)
    desc = {"src_path": list(p), "dst_path": list(q), "same_simulator": same_sim, "src_attr": sa, "dst_attr": da,
            "connection": ckind, "initial_data": has_init, "cache": cache, "after_an_accepted_connection": pre_connect,
            "async_requests": with_async,
            "after_an_accepted_connection_in_the_other_direction": pre_reverse}
    C["connect_cases"] += 1
    C["cache_on" if cache else "cache_off"] += 1
    C["placements_" + placement_kind(p, q)] += 1
    C["expected_reject" if probs else "expected_accept"] += 1
    sched = {"policy": "starve", "starved": ["A"], "seed": 1}
    if not do_run:
        scn["until"] = 1
    tr = run_case(scn, sched)
    res = tr.get("connect", [("missing", None)])[-1]
    if res[0] not in ("ok", "ScenarioError"):
        viol("connect_raised_other", case=desc, error=res)
        return
    rejected = res[0] == "ScenarioError"
    if rejected != bool(probs):
        viol("rejected_but_valid" if rejected else "accepted_but_invalid", case=desc, expected_problems=probs,
             message=res[1])
        return
    if tr["outcome"]["kind"] != "ok":
        if rejected:
            viol("run_failed_after_rejected_connect", case=desc, outcome=tr["outcome"])
        else:
            C["accepted_pairs_run_not_ok"] += 1
        return
    if not do_run or pre_reverse:
        return
    if with_async and not rejected:
        return
    if rejected and not same_sim:
        C["rejected_pairs_run"] += 1
        C["rejected_pairs_run_async_flag"] += int(with_async)
        # no data-flow: B never sees a value of A
        for e in tr["events"]:
            if e.get("op") == "call" and e.get("kind") == "step" and e["sid"] == "B" and e["inputs"]:
                viol("rejected_pair_left_dataflow", case=desc, inputs=e["inputs"], time=e["time"])
                return
            if e.get("op") == "call" and e.get("kind") == "get_data" and e["sid"] == "A" and e.get("req"):
                viol("rejected_pair_left_output_request", case=desc, request=e["req"])
                return
        # no wait: with A starved, B finishes all its steps before A finishes its first one
        first_a_ret = next((e["i"] for e in tr["events"] if e.get("op") == "ret" and e.get("kind") == "step"
                            and e["sid"] == "A"), None)
        b_steps = [e["i"] for e in tr["events"] if e.get("op") == "call" and e.get("kind") == "step" and e["sid"] == "B"]
        if first_a_ret is not None and b_steps and max(b_steps) > first_a_ret:
            viol("rejected_pair_left_a_wait", case=desc, b_step_events=b_steps, first_a_return=first_a_ret)
        # no trigger: B is only stepped by its own schedule (times 0,1,2 once each)
        bt = [(e["time"], e["k"]) for e in tr["events"] if e.get("op") == "call" and e.get("kind") == "step" and e["sid"] == "B"]
        if bt != [(0, 0), (1, 0), (2, 0)]:
            viol("rejected_pair_changed_steps", case=desc, steps=bt)
    elif not rejected:
        C["accepted_pairs_run"] += 1


def hier_cases(C: Counter) -> List[dict]:
    """Hierarchical entities: create() returns children of *another* model with other attributes; connect()
    has to validate against the child's own model."""
    import mosaik
    import warnings
    from mosaik.exceptions import ScenarioError
    out: List[dict] = []
    with warnings.catch_warnings():
        warnings.simplefilter("ignore")
        world = mosaik.World({"H": {"python": "vlab.stubs:HierSim"}}, skip_greetings=True)
        try:
            fa = world.start("H", sim_id="HA")
            fb = world.start("H", sim_id="HB")
            pa = fa.Parent()
            pb = fb.Parent()
            ca, cb = pa.children[0], pb.children[0]
            oa, ob = pa.children[1], pb.children[1]          # second child: another model than the first
            ga, gb = oa.children[0], ob.children[0]          # grandchild (Child again, below an Other)
            ca2, cb2 = pa.children[2], pb.children[2]
            C["hierarchical_child_types"] = len({e.type for e in (pa, ca, oa, ga)})
            table = [  # (src entity, src attr, dst entity, dst attr, valid?)
                (ca, "c_out", cb, "c_in", True), (ca, "p_out", cb, "c_in", False), (ca, "c_out", cb, "p_in", False),
                (pa, "p_out", pb, "p_in", True), (pa, "c_out", pb, "p_in", False), (pa, "p_out", cb, "c_in", True),
                (ca, "c_out", pb, "p_in", True), (pa, "p_out", cb, "p_in", False),
                (oa, "o_out", ob, "o_in", True), (oa, "c_out", ob, "o_in", False), (oa, "o_out", ob, "c_in", False),
                (oa, "o_out", cb, "c_in", True), (ca, "c_out", ob, "o_in", True), (ca, "o_out", ob, "o_in", False),
                (ca, "c_out", ob, "c_in", False), (oa, "p_out", pb, "p_in", False),
                (ga, "c_out", gb, "c_in", True), (ga, "o_out", gb, "c_in", False), (ga, "c_out", gb, "o_in", False),
                (ga, "c_out", ob, "o_in", True), (oa, "o_out", gb, "c_in", True), (oa, "o_out", gb, "o_in", False),
                (ca2, "c_out", cb2, "c_in", True), (ca2, "o_out", cb2, "c_in", False), (ca2, "c_out", ob, "o_in", True),
            ]
            for se, sa, de, da, valid in table:
                C["hierarchical_entity_cases"] += 1
                try:
                    world.connect(se, de, (sa, da))
                    ok = True
                except ScenarioError:
                    ok = False
                if ok != valid:
                    out.append({"kind": "accepted_but_invalid" if ok else "rejected_but_valid",
                                "case": {"hierarchical": True, "src": f"{se.type}.{sa}", "dst": f"{de.type}.{da}"},
                                "note": "attribute must be validated against the entity's own model (child type)"})
        finally:
            world.shutdown()
    return out



DST_MODELS = [  # (simulator type, model description): the kind of an input comes from the description (C12's model)
    ("hybrid", {"attrs": ["a"], "any_inputs": True}),
    ("hybrid", {"attrs": ["a"], "any_inputs": True, "trigger": ["t"]}),
    ("hybrid", {"attrs": ["a"], "any_inputs": True, "non-trigger": ["a"]}),
    ("event-based", {"attrs": ["a"], "any_inputs": True}),
    ("time-based", {"attrs": ["a"], "any_inputs": True}),
    ("hybrid", {"attrs": ["a", "t"], "trigger": ["t"]}),
    ("hybrid", {"attrs": ["a", "b"]}),
    ("hybrid", {"attrs": ["a", "b", "t"], "non-trigger": ["a"]}),
    ("event-based", {"attrs": ["a", "t"]}),
    ("time-based", {"attrs": ["a", "b"]}),
]
API_DST_ATTRS = ["a", "b", "t", "x"]
API_CONNS = [("plain", {}), ("shift", {"time_shifted": True}), ("shift2", {"time_shifted": 2}), ("weak", {"weak": True}),
             ("weak+shift", {"weak": True, "time_shifted": True})]


def api_cases(C: Counter) -> List[dict]:
    """connect() through the plain API against models whose input kinds come from defaults and `any_inputs`
    (the destination attribute need not be listed anywhere), plus argument shapes: one initial_data dict
    object used for several calls, one source attribute mapped to two destination attributes in one call."""
    import mosaik
    import warnings
    from mosaik.exceptions import ScenarioError
    from .c12 import expected as classify, FRESH
    from ..build import setup_logging
    setup_logging()
    out: List[dict] = []
    full = frozenset(API_DST_ATTRS) | {FRESH}
    src_spec = {"type": "hybrid", "entities": ["e0"], "ins": {}, "outs": {},
                "model_desc": {"public": True, "params": [], "attrs": ["o", "e"], "non-persistent": ["e"]}}
    with warnings.catch_warnings():
        warnings.simplefilter("ignore")
        for mi, (typ, desc) in enumerate(DST_MODELS):
            n, t, _p, _e = classify(desc, typ, full)
            dst_spec = {"type": typ, "entities": ["e0", "e1"], "ins": {}, "outs": {},
                        "model_desc": dict(desc, public=True, params=[])}
            for sa in ("o", "e", "nope"):
                for da in API_DST_ATTRS:
                    for ckind, ckw in API_CONNS:
                        for has_init in (False, True):
                            for shape in ("single", "dict_reused", "two_dest_attrs", "init_value_None", "init_value_0"):
                                if shape != "single" and not (has_init and ckind != "plain"):
                                    continue
                                world = mosaik.World({"S": {"python": "vlab.sims:ScriptedSim"}}, skip_greetings=True)
                                try:
                                    with world.group():
                                        fa = world.start("S", sim_id="A", spec=src_spec)
                                        fb = world.start("S", sim_id="B", spec=dst_spec)
                                    ea = fa.M()
                                    eb, eb2 = fb.M.create(2)
                                    probs = []
                                    if sa not in ("o", "e"):
                                        probs.append("source attribute is not an output")
                                    if da not in (n | t):
                                        probs.append("destination attribute is not an input")
                                    if ckind != "plain" and da in n and not has_init:
                                        probs.append("shifted/weak into non-trigger input without initial data")
                                    kw = dict(ckw)
                                    # None, 0 are legal initial values ("no initial data" is the absence of the key)
                                    D = {sa: {"init_value_None": None, "init_value_0": 0}.get(shape, "INIT")}
                                    if has_init:
                                        kw["initial_data"] = D
                                    case = {"api": True, "dst_type": typ, "dst_model": desc, "src_attr": sa, "dst_attr": da,
                                            "connection": ckind, "initial_data": has_init, "shape": shape}
                                    C["api_connect_cases"] += 1
                                    C["api_shape_" + shape] += 1
                                    C["api_expected_reject" if probs else "api_expected_accept"] += 1
                                    try:
                                        if shape == "two_dest_attrs":
                                            da2 = next(x for x in API_DST_ATTRS if x != da)
                                            if da2 not in (n | t):
                                                probs.append("second destination attribute is not an input")
                                            world.connect(ea, eb, (sa, da), (sa, da2), **kw)
                                        else:
                                            world.connect(ea, eb, (sa, da), **kw)
                                            if shape == "dict_reused":
                                                # the same dict object again, for another destination entity
                                                world.connect(ea, eb2, (sa, da), **kw)
                                        ok = True
                                    except ScenarioError:
                                        ok = False
                                    if ok != (not probs):
                                        out.append({"kind": "accepted_but_invalid" if ok else "rejected_but_valid",
                                                    "case": case, "expected_problems": probs})
                                except Exception as ex:  # noqa: BLE001  (a valid model / call must not fail otherwise)
                                    C["api_case_raised_other"] += 1
                                    if not any(o_["kind"] == "api_case_raised_other" and o_["case"]["dst_model"] == desc
                                               for o_ in out):
                                        out.append({"kind": "api_case_raised_other",
                                                    "case": {"api": True, "dst_type": typ, "dst_model": desc, "src_attr": sa,
                                                             "dst_attr": da, "connection": ckind},
                                                    "error": f"{type(ex).__name__}: {str(ex)[:300]}"})
                                finally:
                                    world.shutdown()
    return out


def group_fault_cases(C: Counter) -> List[dict]:
    """A `with world.group():` block that is left by an exception (a start that fails, an error in the user's own
    code) and the exception handled outside: simulators started afterwards at top level are in NO group, so a weak
    connection between them, or between one of them and a member of the aborted group, has to be refused; a new
    group opened afterwards is a fresh top-level group (its members share a group with each other only)."""
    import mosaik
    import warnings
    from mosaik.exceptions import ScenarioError
    from ..build import setup_logging
    setup_logging()
    out: List[dict] = []
    spec = {"type": "hybrid", "entities": ["e0"], "ins": {"t": "trigger"}, "outs": {"e": "nonpersistent"}}

    def weak_ok(world, a, b):
        try:
            world.connect(a, b, ("e", "t"), weak=True)
            return True
        except ScenarioError:
            return False

    for how in ("exception_in_user_code", "failing_start", "nested_inner_aborted"):
        with warnings.catch_warnings():
            warnings.simplefilter("ignore")
            world = mosaik.World({"S": {"python": "vlab.sims:ScriptedSim"}}, skip_greetings=True)
            try:
                inner_member = None
                try:
                    with world.group():
                        fa = world.start("S", sim_id="A", spec=spec)
                        if how == "exception_in_user_code":
                            raise KeyError("user code failed inside the group block")
                        if how == "failing_start":
                            world.start("NoSuchSimulator")
                        if how == "nested_inner_aborted":
                            try:
                                with world.group():
                                    inner_member = world.start("S", sim_id="I", spec=spec)
                                    raise KeyError("inner block failed")
                            except KeyError:
                                pass
                            # still inside the OUTER group: started here = member of the outer group only
                            fo = world.start("S", sim_id="O", spec=spec)
                            raise KeyError("outer block failed as well")
                except (KeyError, ScenarioError):
                    pass
                fb = world.start("S", sim_id="B", spec=spec)       # top level: in no group
                fc = world.start("S", sim_id="C", spec=spec)       # top level: in no group
                with world.group():
                    fd = world.start("S", sim_id="D", spec=spec)
                    fe = world.start("S", sim_id="E", spec=spec)
                ea, eb, ec, ed, ee = fa.M(), fb.M(), fc.M(), fd.M(), fe.M()
                checks = [("aborted-group member -> later top-level simulator", ea, eb, False),
                          ("later top-level simulator -> aborted-group member", eb, ea, False),
                          ("two later top-level simulators", eb, ec, False),
                          ("aborted-group member -> member of a later group", ea, ed, False),
                          ("later top-level simulator -> member of a later group", eb, ed, False),
                          ("two members of the later group", ed, ee, True)]
                if how == "nested_inner_aborted":
                    ei, eo = inner_member.M(), fo.M()
                    checks += [("outer-group member started after the inner block failed -> inner member", eo, ei, True),
                               ("outer-group member -> first outer member", eo, ea, True),
                               ("inner member -> later top-level simulator", ei, eb, False)]
                for what, x, y, want in checks:
                    C["group_fault_weak_connects"] += 1
                    got = weak_ok(world, x, y)
                    if got != want:
                        out.append({"kind": "accepted_but_invalid" if got else "rejected_but_valid",
                                    "case": {"group_block_left_by_exception": how, "weak_connection": what},
                                    "expected_problems": [] if want else ["weak connection between simulators that share no group"]})
                C["group_fault_cases"] += 1
            finally:
                world.shutdown()
    return out


def same_model_name_cases(C: Counter) -> List[dict]:
    """Several simulator instances (one sim_config entry, configured by init parameters) offer a model with the SAME
    name but different attributes.  Every connect() has to be judged against the models of the very entities named
    in the call, whatever was accepted or refused before for equally named models/attributes."""
    import mosaik
    import warnings
    from mosaik.exceptions import ScenarioError
    from ..build import setup_logging
    setup_logging()
    out: List[dict] = []

    def spec(ins, outs):
        return {"type": "hybrid", "entities": ["e0"], "ins": ins, "outs": outs}
    rich_src = spec({}, {"p": "persistent", "e": "nonpersistent"})
    poor_src = spec({}, {"p": "persistent"})
    rich_dst = spec({"t": "trigger", "n": "nontrigger"}, {})
    poor_dst = spec({"t": "trigger"}, {})
    calls = []          # (src, dst, pair, kwargs, valid)
    for (sa, da) in (("e", "t"), ("p", "n"), ("e", "n"), ("p", "t")):
        for kw in ({}, {"time_shifted": True, "initial_data": {sa: 1}}):
            calls.append(("A", "B", (sa, da), kw, True))
            calls.append(("A2", "B", (sa, da), kw, sa == "p"))
            calls.append(("A", "B2", (sa, da), kw, da == "t"))
            calls.append(("A2", "B2", (sa, da), kw, sa == "p" and da == "t"))
    import random as _r
    for order_seed in range(12):
        order = list(calls)
        _r.Random(order_seed).shuffle(order)
        if order_seed == 0:
            order = sorted(calls, key=lambda c_: not c_[4])     # all valid ones first
        if order_seed == 1:
            order = sorted(calls, key=lambda c_: c_[4])         # all invalid ones first
        with warnings.catch_warnings():
            warnings.simplefilter("ignore")
            world = mosaik.World({"S": {"python": "vlab.sims:ScriptedSim"}}, skip_greetings=True)
            try:
                f = {"A": world.start("S", sim_id="A", spec=rich_src), "A2": world.start("S", sim_id="A2", spec=poor_src),
                     "B": world.start("S", sim_id="B", spec=rich_dst), "B2": world.start("S", sim_id="B2", spec=poor_dst)}
                e = {k_: v.M() for k_, v in f.items()}
                done = []
                for src, dst, pair, kw, valid in order:
                    C["same_model_name_connects"] += 1
                    try:
                        world.connect(e[src], e[dst], pair, **{k_: (dict(v) if isinstance(v, dict) else v) for k_, v in kw.items()})
                        ok = True
                    except ScenarioError:
                        ok = False
                    if ok != valid:
                        out.append({"kind": "accepted_but_invalid" if ok else "rejected_but_valid",
                                    "case": {"same_model_name_other_attrs": True, "src": src, "dst": dst, "pair": list(pair),
                                             "kwargs": sorted(kw), "calls_before": done[-6:]},
                                    "note": "model M of A/B has attrs p,e / t,n; model M of A2/B2 only p / t"})
                        break
                    done.append([src, dst, list(pair), ok])
                C["same_model_name_sequences"] += 1
            finally:
                world.shutdown()
    return out


def obligations(st):
    return st.get("steps", 0)


def run_slice(job: dict) -> dict:
    from ..monitors import Analysis  # noqa: F401
    res: Dict[str, Any] = {"evaluations": 0, "counters": Counter(), "hashes": set(), "violations": [],
                           "samples": [], "aborted": 0}
    C = res["counters"]
    W, w = job["nworkers"], job["windex"]

    def viol(kind, **kw):
        kw["kind"] = kind
        C["violation_" + kind] += 1
        C["unlisted_violations"] += 1
        if len(res["violations"]) < 10:
            res["violations"].append({"v": kw, "replay": {"table_case": kw.get("case")}})

    for k, case in enumerate(table_cases()):
        if k % W != w:
            continue
        run_table_case(case, C, viol, do_run=(k // W) % job["run_every"] == 0, cache=bool((k // W) % 2))
        if (k // W) % 3 == 0:
            run_table_case(case, C, viol, do_run=False, cache=True, pre_connect=True)
            res["evaluations"] += 1
        if (k // W) % 3 == 1:
            run_table_case(case, C, viol, do_run=True, cache=bool((k // W) % 2), pre_reverse=True)
            res["evaluations"] += 1
        if (k // W) % 3 == 2:
            run_table_case(case, C, viol, do_run=True, cache=bool((k // W) % 2), with_async=True)
            res["evaluations"] += 1
        res["evaluations"] += 1
        res["hashes"].add(H([list(case[0]), list(case[1])] + list(case[2:6]) + [case[7]]) % (1 << 52))
        if len(res["samples"]) < 1 and k % 1301 == 0:
            p, q, same_sim, sa, da, ckind, ckw, has_init = case
            res["samples"].append({"src_path": list(p), "dst_path": list(q), "src_attr": sa, "dst_attr": da,
                                   "connection": ckind, "initial_data": has_init,
                                   "expected_problems": expected_problems(sa, da, ckind, has_init, p, q)})
    if w == 0:
        for vv in hier_cases(C):
            C["violation_" + vv["kind"]] += 1
            C["unlisted_violations"] += 1
            res["violations"].append({"v": vv, "replay": {"hier_case": True}})
        res["evaluations"] += 1
    if w == 1 % W:
        for vv in api_cases(C):
            C["violation_" + vv["kind"]] += 1
            C["unlisted_violations"] += 1
            if len(res["violations"]) < 10:
                res["violations"].append({"v": vv, "replay": {"api_case": True}})
        res["evaluations"] += 1
    if w == 2 % W:
        for vv in group_fault_cases(C):
            C["violation_" + vv["kind"]] += 1
            C["unlisted_violations"] += 1
            if len(res["violations"]) < 10:
                res["violations"].append({"v": vv, "replay": {"group_fault_case": True}})
        res["evaluations"] += 1
    if w == 3 % W:
        for vv in same_model_name_cases(C):
            C["violation_" + vv["kind"]] += 1
            C["unlisted_violations"] += 1
            if len(res["violations"]) < 10:
                res["violations"].append({"v": vv, "replay": {"same_model_name_case": True}})
        res["evaluations"] += 1
    # ---- (B) group scoping end-to-end with the engine-A monitors ------------------------
    def post(scn, tr, a):
        out = []
        for prop in ("C02", "C01"):
            for v in a.viol[prop]:
                out.append(dict(v, kind="group_scoping_" + v["kind"], monitor=prop))
        return out
    sub = run_slice_mon(job, PROP, obligations, post=post)
    for kk, vv in sub["counters"].items():
        if kk in ("steps", "substeps", "runs_with_weak", "outcome_ok", "outcome_error",
                  "label_crosscheck_ok", "label_crosscheck_mismatch", "unlisted_violations") or kk.startswith("violation_"):
            C["scoping_" + kk if not kk.startswith(("violation_", "unlisted")) else kk] += vv
    C["scoping_runs"] += sub["evaluations"]
    C["scoping_runs_with_sibling_groups"] += sub["counters"].get("runs_with_sibling_groups", 0)
    res["evaluations"] += sub["evaluations"]
    res["hashes"].update(sub["hashes"])
    res["violations"].extend(sub["violations"])
    res["samples"].extend(sub["samples"][:1])
    res["hashes"] = list(res["hashes"])
    res["counters"] = dict(C)
    return res


def replay(rep: dict) -> List[dict]:
    r = rep.get("replay") or {}
    out: List[dict] = []
    if "table_case" in r and r["table_case"]:
        d = r["table_case"]
        ckw = dict(CONNS)[d["connection"]]
        case = (tuple(d["src_path"]), tuple(d["dst_path"]), d["same_simulator"], d["src_attr"], d["dst_attr"],
                d["connection"], ckw, d["initial_data"])

        def viol(kind, **kw):
            kw["kind"] = kind
            out.append(kw)
        run_table_case(case, Counter(), viol, True, cache=d.get("cache", True),
                       pre_connect=d.get("after_an_accepted_connection", False),
                       pre_reverse=d.get("after_an_accepted_connection_in_the_other_direction", False),
                       with_async=d.get("async_requests", False))
        return out
    if "hier_case" in r:
        return hier_cases(Counter())
    if "api_case" in r:
        return api_cases(Counter())
    if "group_fault_case" in r:
        return group_fault_cases(Counter())
    if "same_model_name_case" in r:
        return same_model_name_cases(Counter())
    if "scn" in r:
        from ..monitors import Analysis
        tr = run_case(r["scn"], dict(r["sched"]))
        a = Analysis(r["scn"], tr)
        for prop in ("C02", "C01"):
            for v in a.viol[prop]:
                out.append(dict(v, kind="group_scoping_" + v["kind"], monitor=prop))
    return out


def decide(m, tier):
    c = m["counters"]
    reasons = []
    if c.get("expected_reject", 0) < 500 or c.get("expected_accept", 0) < 500:
        reasons.append("decision table: fewer than 500 cases on one side")
    if c.get("rejected_pairs_run", 0) < 200:
        reasons.append("fewer than 200 rejected pairs followed by a run")
    if c.get("api_expected_accept", 0) < 200 or c.get("api_expected_reject", 0) < 200:
        reasons.append("API-level cases (defaults / any_inputs / argument shapes): fewer than 200 on one side")
    if c.get("placements_sibling", 0) < 100:
        reasons.append("fewer than 100 sibling placements")
    if c.get("scoping_runs_with_sibling_groups", 0) < 200 or c.get("scoping_substeps", 0) < 500:
        reasons.append("group scoping runs: too few with sibling groups / sub-steps")
    return ("inconclusive" if reasons else "held"), reasons


def evidence(m, tier, seed):
    return {"level": "exploration", "coverage": {
        "rule": "(A) every (source attr in {persistent, non-persistent, no output}) x (dest attr in {trigger, "
                "non-trigger, no input}) x {plain, shifted, shifted=2, weak} x initial data yes/no x every ordered "
                "pair of 6 group paths (root, same, nested, sibling) plus self-connections, cache on and off, plus "
                "child entities of another model (hierarchical create()), and the same connection after an accepted "
                "connection between the same simulators (sequence of calls), and after an accepted plain connection in the other direction "
                "followed by a run (a refused connection must leave nothing behind that closes a cycle); (A2, counters api_*) the plain API against 10 destination "
                "models whose input kinds come from type defaults and any_inputs (destination attributes listed nowhere), with "
                "one initial_data dict object reused for two calls and one source attribute mapped to two destination "
                "attributes in one call; (A3) every third table case again with async_requests=True in the same call (a refused "
                "call must not leave the asynchronous channel behind: no mutual wait in the following run); (A4, counters "
                "group_fault_*) `with world.group()` blocks left by an exception that is handled outside (error in user code, "
                "failing start, nested inner block): which later weak connections are accepted shows who shares a group; "
                "(A5, counters same_model_name_*) four instances of one simulator "
                "whose equally named model has other attributes, 32 calls in 12 orders; initial values None and 0; real connect(), then a "
                "run with the source starved to show that a rejected pair left no data-flow, output request, "
                "trigger or wait; (B) generated scenarios with sibling/nested groups and weak loops under the "
                "step-set and ordering monitors (labels by group path); distinct_nontrivial = distinct table "
                "cases + distinct (scenario, order) of (B)",
        "exhaustive": True,
        "obligations": m["counters"].get("connect_cases", 0) + m["counters"].get("scoping_steps", 0),
    }, "assumptions": ["'exhaustive' refers to the decision table (A); (B) is sampled"]}
