"""C12 Attribute classification -- real parse_attrs / world.start() / OutSet operators against a
membership model over a finite universe plus one fresh name ("every other attribute")."""
from __future__ import annotations

import copy
import itertools
from collections import Counter
from typing import Any, Dict, FrozenSet, List, Optional, Tuple

from ..sims import H

PROP = "C12"
HEADLINE = ["descriptions", "accepted", "rejected", "world_start_checked", "connects_checked",
            "set_expressions", "set_membership_checks"]
FRESH = "zz_fresh"
TYPES = ["time-based", "event-based", "hybrid"]
KEYS = ["attrs", "trigger", "non-trigger", "persistent", "non-persistent"]


def plan(tier, seed, scale):
    q = tier == "quick"
    return {"universe": ["a", "b"] if q else ["a", "b", "c"], "n_cases": 1,
            "world_every": 1 if q else 7, "timeout_s": 900 if q else 10800}


def subsets(u):
    for r in range(len(u) + 1):
        for c in itertools.combinations(u, r):
            yield frozenset(c)


class Reject(Exception):
    pass


def solve(union: Optional[FrozenSet[str]], a: Optional[FrozenSet[str]], b: Optional[FrozenSet[str]]):
    """Three sets over the full universe (incl. FRESH); the first must be the disjoint union of the
    other two; at most one may be unknown."""
    if union is None:
        if a is None or b is None:
            raise Reject("under-specified")
        union = a | b
    if a is None:
        if b is None:
            raise Reject("under-specified")
        a = union - b
    if b is None:
        b = union - a
    if a & b:
        raise Reject("not disjoint")
    if union != (a | b):
        raise Reject("not a partition of the union")
    return a, b


def expected(desc: dict, typ: str, full: FrozenSet[str]):
    """Declarative model.  Sets are plain frozensets over ``full`` = universe + FRESH; a finite
    list never contains FRESH, "every attribute" is ``full``."""
    g = lambda k: frozenset(desc[k]) if k in desc else None  # noqa: E731
    inputs = full if desc.get("any_inputs") else g("attrs")
    empty: FrozenSet[str] = frozenset()
    if typ == "time-based":
        dn, dt = None, empty
    elif typ == "event-based":
        dn, dt = empty, None
    else:
        dn, dt = (None if "trigger" in desc else inputs), None
    n = g("non-trigger") if "non-trigger" in desc else dn
    t = g("trigger") if "trigger" in desc else dt
    n, t = solve(inputs, n, t)
    if typ == "time-based" and t:
        raise Reject("time-based with trigger inputs")
    if typ == "event-based" and n:
        raise Reject("event-based with non-trigger inputs")
    outputs = g("attrs")
    dp = empty if typ == "event-based" else None
    de = None if typ == "event-based" else empty
    p = g("persistent") if "persistent" in desc else dp
    e = g("non-persistent") if "non-persistent" in desc else de
    p, e = solve(outputs, p, e)
    if typ == "time-based" and e:
        raise Reject("time-based with non-persistent outputs")
    if typ == "event-based" and p:
        raise Reject("event-based with persistent outputs")
    return n, t, p, e


def members(s, full) -> FrozenSet[str]:
    return frozenset(x for x in full if x in s)


def all_descs(universe):
    opts = [None] + list(subsets(universe))
    for combo in itertools.product(opts, repeat=len(KEYS)):
        for anyin in (None, False, True):
            d: Dict[str, Any] = {}
            for k, v in zip(KEYS, combo):
                if v is not None:
                    d[k] = sorted(v)
            if anyin is not None:
                d["any_inputs"] = anyin
            yield d


def run_slice(job: dict) -> dict:
    from mosaik.scenario import parse_attrs
    from mosaik.in_or_out_set import OutSet
    import mosaik
    import warnings
    res: Dict[str, Any] = {"evaluations": 0, "counters": Counter(), "hashes": set(), "violations": [],
                           "samples": [], "aborted": 0}
    C = res["counters"]
    W, w = job["nworkers"], job["windex"]
    U = job["universe"]
    full = frozenset(U) | {FRESH}

    def viol(kind, **kw):
        kw["kind"] = kind
        C["violation_" + kind] += 1
        C["unlisted_violations"] += 1
        if len(res["violations"]) < 10:
            res["violations"].append({"v": kw, "replay": {"case": kw}})

    from ..build import setup_logging
    setup_logging()
    k = 0
    for desc in all_descs(U):
        for typ in TYPES:
            k += 1
            if k % W != w:
                continue
            C["descriptions"] += 1
            res["evaluations"] += 1
            try:
                exp = expected(desc, typ, full)
            except Reject as r:
                exp = r
            try:
                got = parse_attrs(dict(desc), typ)  # type: ignore[arg-type]
                err = None
            except ValueError as e:
                got, err = None, e
            except Exception as e:  # noqa: BLE001
                viol("parse_attrs_raised_other", desc=desc, type=typ, error=f"{type(e).__name__}: {e}")
                continue
            if isinstance(exp, Reject):
                C["rejected"] += 1
                if err is None:
                    viol("accepted_but_inconsistent", desc=desc, type=typ, reason=str(exp),
                         got=[sorted(members(s, full)) for s in got])
                continue
            C["accepted"] += 1
            res["hashes"].add(H(desc, typ) % (1 << 52))
            if err is not None:
                viol("rejected_but_consistent", desc=desc, type=typ, error=str(err),
                     expected=[sorted(s) for s in exp])
                continue
            gm = [members(s, full) for s in got]
            if list(exp) != gm:
                viol("wrong_classification", desc=desc, type=typ, expected=[sorted(s) for s in exp],
                     got=[sorted(s) for s in gm])
                continue
            n, t, p, e = gm
            inputs = full if desc.get("any_inputs") else frozenset(desc.get("attrs", n | t))
            if (n | t) != inputs or (n & t) or (p & e) or (p | e) != frozenset(desc.get("attrs", p | e)):
                viol("not_a_partition", desc=desc, type=typ, got=[sorted(s) for s in gm])
            if len(res["samples"]) < 1 and (k // W) % 97 == 3:
                res["samples"].append({"desc": desc, "type": typ, "classification": {
                    "non-trigger": sorted(n), "trigger": sorted(t), "persistent": sorted(p), "non-persistent": sorted(e)}})
            # ---- the same through world.start() and connect() ----------------------
            if (k // W) % job["world_every"] == 0:
                with warnings.catch_warnings():
                    warnings.simplefilter("ignore")
                    world = mosaik.World({"S": {"python": "vlab.sims:ScriptedSim"}}, skip_greetings=True)
                    try:
                        # the simulator announces API 3.0, 2.2 or 2.0 (old ones are wrapped in adapters; a declared
                        # type must survive that)
                        apiv = ("3.0", "2.2", "2.0")[(k // W // job["world_every"]) % 3]
                        C["world_start_api_" + apiv] += 1
                        spec = {"type": typ, "entities": ["e0"], "ins": {}, "outs": {}, "api_version": apiv,
                                "model_desc": dict(desc, public=True, params=[]),
                                # every other time init() returns a customised copy, not the object kept in self.meta
                                "meta_is_a_customised_copy": bool((k // W // job["world_every"]) % 2)}
                        C["world_start_meta_returned_is_not_self_meta"] += int(spec["meta_is_a_customised_copy"])
                        # before: another start from the SAME sim_config entry whose init() returns another
                        # description (a simulator configured by its init parameters) of the same type
                        other = {"attrs": sorted(full - {FRESH}), "any_inputs": False}
                        if typ == "hybrid":
                            other["trigger"] = sorted(full - {FRESH})[:1]
                        f0 = world.start("S", sim_id="W", spec=dict(spec, model_desc=dict(other, public=True, params=[])))
                        exp0 = expected(other, typ, full)
                        g0 = [members(s_, full) for s_ in (f0.M.measurement_inputs, f0.M.event_inputs,
                                                            f0.M.measurement_outputs, f0.M.event_outputs)]
                        if g0 != list(exp0):
                            viol("world_start_classification_differs", desc=other, type=typ, api_version=apiv,
                                 expected=[sorted(s_) for s_ in exp0], got=[sorted(s_) for s_ in g0])
                        fa = world.start("S", sim_id="X", spec=spec)
                        fb = world.start("S", sim_id="Y", spec=spec)
                        C["world_start_checked"] += 1
                        C["world_start_after_other_description_from_same_entry"] += 1
                        mm = fa.M
                        gw = [members(s, full) for s in (mm.measurement_inputs, mm.event_inputs,
                                                          mm.measurement_outputs, mm.event_outputs)]
                        if gw != list(exp):
                            viol("world_start_classification_differs", desc=desc, type=typ, api_version=apiv,
                                 after_other_description_from_same_entry=True,
                                 expected=[sorted(s) for s in exp], got=[sorted(s) for s in gw])
                        ea, eb = fa.M(), fb.M()
                        for sa in sorted(full):
                            for da in sorted(full):
                                src_ok = sa in (p | e)
                                dst_ok = da in (n | t)
                                try:
                                    world.connect(ea, eb, (sa, da))
                                    okc = True
                                except mosaik.exceptions.ScenarioError:
                                    okc = False
                                C["connects_checked"] += 1
                                if okc != (src_ok and dst_ok):
                                    viol("connect_disagrees_with_classification", desc=desc, type=typ,
                                         src_attr=sa, dst_attr=da, accepted=okc)
                    except ValueError as e2:
                        viol("world_start_rejected_but_consistent", desc=desc, type=typ, error=str(e2))
                    except Exception as e3:  # noqa: BLE001  (a consistent description must not fail in any other way)
                        viol("world_start_or_connect_raised_other", desc=desc, type=typ,
                             error=f"{type(e3).__name__}: {str(e3)[:200]}")
                    finally:
                        world.shutdown()
            elif False:
                pass
        # rejected descriptions must also be rejected by world.start (sampled)
    # ---- one module-level model table, the type chosen per instance: started as T1, then as T2 ----------
    from .. import stubs
    k = 0
    for desc in all_descs(U):
        k += 1
        if k % W != w:
            continue
        acc = {}
        for typ in TYPES:
            try:
                acc[typ] = expected(desc, typ, full)
            except Reject:
                acc[typ] = None
        if sum(v is not None for v in acc.values()) < 1:
            continue
        for t1 in TYPES:
            if acc[t1] is None:
                continue
            for t2 in TYPES:
                if t2 == t1:
                    continue
                stubs.SHARED_MODELS.clear()
                stubs.SHARED_MODELS["M"] = copy.deepcopy(dict(desc, public=True, params=[]))
                with warnings.catch_warnings():
                    warnings.simplefilter("ignore")
                    world = mosaik.World({"T": {"python": "vlab.stubs:SharedModels"}}, skip_greetings=True)
                    try:
                        try:
                            world.start("T", sim_id="First", typ=t1)
                        except ValueError as e1:
                            viol("world_start_rejected_but_consistent", desc=desc, type=t1, shared_model_table=True,
                                 started_before_as=t1, error=str(e1)[:200])
                            continue
                        C["shared_model_table_pairs"] += 1
                        try:
                            f2 = world.start("T", sim_id="Second", typ=t2)
                        except ValueError as e2:
                            if acc[t2] is not None:
                                viol("world_start_rejected_but_consistent", desc=desc, type=t2, started_before_as=t1,
                                     shared_model_table=True, error=str(e2)[:200])
                            continue
                        if acc[t2] is None:
                            viol("world_start_accepted_inconsistent", desc=desc, type=t2, started_before_as=t1,
                                 shared_model_table=True)
                            continue
                        g2 = [members(s_, full) for s_ in (f2.M.measurement_inputs, f2.M.event_inputs,
                                                            f2.M.measurement_outputs, f2.M.event_outputs)]
                        if g2 != list(acc[t2]):
                            viol("world_start_classification_differs", desc=desc, type=t2, started_before_as=t1,
                                 shared_model_table=True, expected=[sorted(s_) for s_ in acc[t2]],
                                 got=[sorted(s_) for s_ in g2])
                        if stubs.SHARED_MODELS["M"] != dict(desc, public=True, params=[]):
                            C["shared_model_table_modified_by_mosaik"] += 1
                    except Exception as e3:  # noqa: BLE001
                        viol("world_start_or_connect_raised_other", desc=desc, type=t2, started_before_as=t1,
                             shared_model_table=True, error=f"{type(e3).__name__}: {str(e3)[:200]}")
                    finally:
                        world.shutdown()
    # ---- world.start must reject what parse_attrs rejects (sample of rejected) -----------
    k = 0
    for desc in all_descs(U):
        for typ in TYPES:
            k += 1
            if k % W != w or (k // W) % 23:
                continue
            try:
                expected(desc, typ, full)
                continue
            except Reject:
                pass
            with warnings.catch_warnings():
                warnings.simplefilter("ignore")
                world = mosaik.World({"S": {"python": "vlab.sims:ScriptedSim"}}, skip_greetings=True)
                try:
                    if (k // W // 23) % 2:
                        # a consistent description from the same sim_config entry has been started before
                        try:
                            world.start("S", sim_id="W", spec={"type": typ, "entities": ["e0"], "ins": {}, "outs": {},
                                                               "model_desc": {"attrs": [], "public": True, "params": []}})
                        except ValueError as e1:
                            viol("world_start_rejected_but_consistent", desc={"attrs": []}, type=typ, error=str(e1)[:200])
                            continue
                        C["world_start_rejections_after_a_consistent_start"] += 1
                    world.start("S", sim_id="X", spec={"type": typ, "entities": ["e0"], "ins": {}, "outs": {},
                                                       "model_desc": dict(desc, public=True, params=[])})
                    viol("world_start_accepted_inconsistent", desc=desc, type=typ)
                except ValueError:
                    C["world_start_rejections_checked"] += 1
                except Exception as e3:  # noqa: BLE001  (an inconsistent description is refused with ValueError)
                    viol("world_start_or_connect_raised_other", desc=desc, type=typ,
                         error=f"{type(e3).__name__}: {str(e3)[:200]}")
                finally:
                    world.shutdown()
    # ---- set algebra ---------------------------------------------------------------------
    def mk(kind, s):
        return frozenset(s) if kind == "in" else OutSet(s)

    def sem(kind, s):
        return frozenset(s) if kind == "in" else full - frozenset(s)

    ops = {"|": (lambda x, y: x | y, lambda x, y: x | y), "&": (lambda x, y: x & y, lambda x, y: x & y),
           "-": (lambda x, y: x - y, lambda x, y: x - y)}
    k = 0
    for ka in ("in", "out"):
        for kb in ("in", "out"):
            for sa in subsets(U):
                for sb in subsets(U):
                    k += 1
                    if k % W != w:
                        continue
                    A, B = mk(ka, sa), mk(kb, sb)
                    ma, mb = sem(ka, sa), sem(kb, sb)
                    for name, (fop, mop) in ops.items():
                        C["set_expressions"] += 1
                        res["evaluations"] += 1
                        try:
                            r = fop(A, B)
                        except Exception as ex:  # noqa: BLE001
                            viol("set_operator_raised", a=[ka, sorted(sa)], b=[kb, sorted(sb)], op=name,
                                 error=f"{type(ex).__name__}: {ex}")
                            continue
                        if not isinstance(r, (frozenset, OutSet)):
                            viol("set_operator_wrong_type", a=[ka, sorted(sa)], b=[kb, sorted(sb)], op=name,
                                 result=repr(r))
                            continue
                        C["set_membership_checks"] += len(full)
                        if members(r, full) != mop(ma, mb):
                            viol("set_operator_wrong_result", a=[ka, sorted(sa)], b=[kb, sorted(sb)], op=name,
                                 got=sorted(members(r, full)), expected=sorted(mop(ma, mb)))
                        # a finite result must be a frozenset, a co-finite one an OutSet
                        if (FRESH in mop(ma, mb)) != isinstance(r, OutSet):
                            viol("set_operator_wrong_kind", a=[ka, sorted(sa)], b=[kb, sorted(sb)], op=name)
                    C["set_expressions"] += 1
                    try:
                        eq = (A == B)
                        if bool(eq) != (ma == mb):
                            viol("set_equality_wrong", a=[ka, sorted(sa)], b=[kb, sorted(sb)], got=bool(eq))
                        for x in sorted(full):
                            C["set_membership_checks"] += 1
                            if (x in A) != (x in ma):
                                viol("set_membership_wrong", a=[ka, sorted(sa)], x=x)
                    except Exception as ex:  # noqa: BLE001
                        viol("set_operator_raised", a=[ka, sorted(sa)], b=[kb, sorted(sb)], op="== / in",
                             error=f"{type(ex).__name__}: {ex}")
    res["hashes"] = list(res["hashes"])
    res["counters"] = dict(C)
    return res


def replay(rep: dict) -> List[dict]:
    from mosaik.scenario import parse_attrs
    v = rep["violation"]
    if "desc" not in v:
        return []
    full = frozenset(["a", "b", "c"]) | {FRESH}
    try:
        exp = expected(v["desc"], v["type"], full)
    except Reject as r:
        exp = r
    if v.get("kind", "").startswith("world_start"):
        import mosaik
        import warnings
        from ..build import setup_logging
        setup_logging()
        typ = v["type"]
        if v.get("shared_model_table"):
            from .. import stubs
            stubs.SHARED_MODELS.clear()
            stubs.SHARED_MODELS["M"] = copy.deepcopy(dict(v["desc"], public=True, params=[]))
            with warnings.catch_warnings():
                warnings.simplefilter("ignore")
                world = mosaik.World({"T": {"python": "vlab.stubs:SharedModels"}}, skip_greetings=True)
                try:
                    world.start("T", sim_id="First", typ=v["started_before_as"])
                    try:
                        f2 = world.start("T", sim_id="Second", typ=typ)
                    except ValueError:
                        return [] if isinstance(exp, Reject) else [v]
                    if isinstance(exp, Reject):
                        return [v]
                    g2 = [members(s_, full) for s_ in (f2.M.measurement_inputs, f2.M.event_inputs,
                                                        f2.M.measurement_outputs, f2.M.event_outputs)]
                    return [v] if g2 != list(exp) else []
                finally:
                    world.shutdown()
        for custom in (False, True):
          with warnings.catch_warnings():
            warnings.simplefilter("ignore")
            world = mosaik.World({"S": {"python": "vlab.sims:ScriptedSim"}}, skip_greetings=True)
            try:
                base = {"type": typ, "entities": ["e0"], "ins": {}, "outs": {}, "api_version": v.get("api_version", "3.0"),
                        "meta_is_a_customised_copy": custom}
                other = {"attrs": ["a", "b", "c"], "any_inputs": False, "public": True, "params": []}
                if typ == "hybrid":
                    other["trigger"] = ["a"]
                world.start("S", sim_id="W", spec=dict(base, model_desc=other))
                try:
                    f = world.start("S", sim_id="X", spec=dict(base, model_desc=dict(v["desc"], public=True, params=[])))
                except ValueError:
                    if not isinstance(exp, Reject):
                        return [v]
                    continue
                if isinstance(exp, Reject):
                    return [v]
                gw = [members(s_, full) for s_ in (f.M.measurement_inputs, f.M.event_inputs,
                                                    f.M.measurement_outputs, f.M.event_outputs)]
                if gw != list(exp):
                    return [v]
            finally:
                world.shutdown()
        return []
    try:
        got = parse_attrs(dict(v["desc"]), v["type"])
    except ValueError:
        got = None
    if isinstance(exp, Reject):
        return [v] if got is not None else []
    if got is None or [members(s, full) for s in got] != list(exp):
        return [v]
    return []


def decide(m, tier):
    c = m["counters"]
    reasons = []
    if c.get("accepted", 0) < 500 or c.get("rejected", 0) < 500:
        reasons.append("fewer than 500 accepted or rejected descriptions")
    if c.get("world_start_checked", 0) < 200:
        reasons.append("world.start() path evaluated fewer than 200 times")
    if c.get("set_expressions", 0) < 200:
        reasons.append("fewer than 200 set expressions")
    return ("inconclusive" if reasons else "held"), reasons


def evidence(m, tier, seed):
    # (world path: see counters world_start_* and shared_model_table_*)
    return {"level": "exploration", "coverage": {
        "rule": "every model description with attrs/trigger/non-trigger/persistent/non-persistent each absent or any "
                "subset of the universe, any_inputs absent/False/True, for the three simulator types: real "
                "parse_attrs, and world.start() + connect() through a meta-mirroring simulator (announcing API 3.0/2.2/2.0; after another "
                "description was started from the same sim_config entry; with init() returning a customised copy instead of "
                "self.meta), and through a simulator class with one module-level model table started first as one type, then "
                "as another (all ordered pairs), against a "
                "declarative partition solver evaluated by membership over universe + one fresh name; every "
                "OutSet/frozenset operand pair for | & - == and 'in'; distinct_nontrivial = distinct accepted "
                "(description, type) pairs",
        "exhaustive": True,
        "obligations": m["counters"].get("descriptions", 0) + m["counters"].get("set_expressions", 0),
    }, "assumptions": ["one fresh attribute name stands for 'every other attribute' (co-finite sets)"]}
