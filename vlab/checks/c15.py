"""C15 API version adaptation -- version table over stub simulators (in-process v1/v2/v3 signatures and a
raw-socket stub) plus a differential run (2.2 vs 3.0)."""
from __future__ import annotations

import json
import os
import sys
import tempfile
import warnings
from collections import Counter
from typing import Any, Dict, List, Optional

from ..sims import H

PROP = "C15"
HEADLINE = ["cases", "expected_reject", "expected_accept", "accepted_runs", "requests_checked",
            "transport_inproc_v3sig", "transport_inproc_v2sig", "transport_inproc_v1sig", "transport_raw_socket",
            "differential_pairs"]

VERSIONS = [None, "1", "2", "2.0", "2.0.3", "2.1", "2.1.0", "2.1.4", "2.2", "2.2.0", "2.2.1", "2.3", "2.10", "2.99.7", "3", "3.0",
            "3.0.0", "3.0.1", "3.1", "4", "4.0", "10.2"]
TRANSPORTS = ["inproc_v3sig", "inproc_v2sig", "inproc_v2strict", "inproc_v1sig", "raw_socket",
              "inproc_v2sig_named_like_v3", "inproc_v3sig_named_like_v2",
              "inproc_v2sig_factory_after_v3", "inproc_v3sig_factory_after_v2"]


def plan(tier, seed, scale):
    q = tier == "quick"
    return {"n_cases": 1, "raw_every": 1, "timeout_s": 1200 if q else 7200, "until": 2 if q else 4}


def vlist(v: Optional[str]) -> List[int]:
    return [1] if v is None else [int(x) for x in v.split(".")]


def expected(version, explicit, transport, typ):
    """Returns ('reject', why) or ('accept', {...request shape...})."""
    v = vlist(version)
    transport = {"inproc_v2sig_named_like_v3": "inproc_v2sig", "inproc_v3sig_named_like_v2": "inproc_v3sig",
                 "inproc_v2sig_factory_after_v3": "inproc_v2sig", "inproc_v3sig_factory_after_v2": "inproc_v3sig"}.get(transport, transport)
    if transport.startswith("inproc_v2") or transport == "inproc_v1sig":
        if v >= [3] and v < [4]:
            return "reject", "in-process simulator claims v3 without the v3 signatures"
    if v >= [4]:
        return "reject", "version >= 4"
    if explicit is not None and vlist(explicit) != v:
        return "reject", "configured api_version differs"
    if typ is None and v >= [3]:
        return "reject", "missing type with API version 3"
    return "accept", {
        "step_args": 3 if v >= [3] else 2,
        "setup_done": v >= [2, 2],
        "time_resolution": transport in ("inproc_v3sig", "raw_socket"),
        "type": typ if typ is not None else "time-based",
    }


def run_case(version, explicit_kind, transport, typ, until, C: Counter, raise_at=None):
    import mosaik
    from mosaik.exceptions import ScenarioError
    from .. import stubs
    from ..build import setup_logging
    setup_logging()
    explicit = None
    if explicit_kind == "equal":
        explicit = version if version is not None else "1"
    elif explicit_kind == "different":
        explicit = "2.0" if vlist(version) >= [3] else "3.0"
    elif explicit_kind == "minor_different":
        v = vlist(version)
        explicit = f"{v[0]}.{(v[1] if len(v) > 1 else 0) + 1}"
    elif explicit_kind == "prefix":
        # the configured version has fewer components than the announced one and is a prefix of it ("2" vs "2.2",
        # "3.0" vs "3.0.1"); for a one-component version the configured one is longer ("3.0" vs "3")
        v = vlist(version)
        explicit = ".".join(map(str, v[:-1])) if len(v) > 1 else f"{v[0]}.0"
    elif explicit_kind == "major_only":
        explicit = str(vlist(version)[0])
    tmp = None
    cfg: Dict[str, Any] = {"version": version, "type": typ}
    if raise_at:
        cfg["raise_at"] = raise_at
    if transport == "raw_socket":
        tmp = tempfile.NamedTemporaryFile(prefix="vlab-c15-", suffix=".jsonl", delete=False)
        tmp.close()
        cfg["log"] = tmp.name
        sc: Dict[str, Any] = {"cmd": "%(python)s -m vlab.rawstub %(addr)s",
                              "env": {"PYTHONPATH": ":".join(p for p in sys.path if p)}}
    else:
        cls = {"inproc_v3sig": "stubs:V3Sig", "inproc_v2sig": "stubs:V2Sig", "inproc_v2strict": "stubs:V2SigStrict",
               "inproc_v1sig": "stubs:V1Sig", "inproc_v2sig_named_like_v3": "stubs2:V3Sig",
               "inproc_v3sig_named_like_v2": "stubs2:V2Sig",
               "inproc_v2sig_factory_after_v3": "stubs2:FactoryV2", "inproc_v3sig_factory_after_v2": "stubs2:FactoryV3"}[transport]
        sc = {"python": f"vlab.{cls}"}
        if cls.startswith("stubs2"):
            # a same-named class with the *other* signatures has been started in this process before (for the
            # factory classes: same module AND same qualified name)
            first, first_v3 = {"stubs2:V3Sig": ("vlab.stubs:V3Sig", True), "stubs2:V2Sig": ("vlab.stubs:V2Sig", False),
                               "stubs2:FactoryV2": ("vlab.stubs2:FactoryV3", True),
                               "stubs2:FactoryV3": ("vlab.stubs2:FactoryV2", False)}[cls]
            w0 = mosaik.World({"G": {"python": first}}, skip_greetings=True)
            try:
                with warnings.catch_warnings():
                    warnings.simplefilter("ignore")
                    w0.start("G", sim_id="G0", cfg={"version": "3.0" if first_v3 else "2.2", "type": "time-based"})
            finally:
                w0.shutdown()
    if explicit is not None:
        sc["api_version"] = explicit
    del stubs.CALLS[:]
    result: Dict[str, Any] = {"start": None, "calls": []}
    with warnings.catch_warnings(record=True) as wl:
        warnings.simplefilter("always")
        world = mosaik.World({"Stub": sc, "Peer": {"python": "vlab.stubs:V3Sig"}}, skip_greetings=True,
                             mosaik_config={"start_timeout": 90, "stop_timeout": 5})
        try:
            try:
                f = world.start("Stub", sim_id="X", cfg=cfg)
                result["start"] = "ok"
                result["type_seen"] = f.meta.get("type")
            except ScenarioError as e:
                result["start"] = "ScenarioError"
                result["msg"] = str(e)[:200]
            except SystemExit as e:
                result["start"] = "SystemExit"
                result["msg"] = str(e)[:200]
            except Exception as e:  # noqa: BLE001
                result["start"] = type(e).__name__
                result["msg"] = str(e)[:200]
            if result["start"] == "ok":
                peer = world.start("Peer", sim_id="P", cfg={"version": "3.0", "type": "time-based"})
                x = f.M()
                p = peer.M()
                world.connect(p, x, ("a", "b"))
                world.connect(x, p, ("a", "b"), time_shifted=True, initial_data={"a": "init"})
                try:
                    world.run(until=until, print_progress=False)
                    result["run"] = "ok"
                except Exception as e:  # noqa: BLE001
                    result["run"] = f"{type(e).__name__}: {e}"[:200]
        finally:
            world.shutdown()
        result["outdated_warning"] = any("outdated API version" in str(w.message) for w in wl)
    if transport == "raw_socket":
        calls = []
        try:
            with open(tmp.name) as fh:
                for line in fh:
                    d = json.loads(line)
                    calls.append(("X", d["func"], tuple(d["args"]), d["kwargs"]))
        finally:
            os.unlink(tmp.name)
        result["calls"] = calls
        result["peer_calls"] = [c for c in stubs.CALLS if c[0] == "P"]
    else:
        result["calls"] = [c for c in stubs.CALLS if c[0] == "X"]
        result["peer_calls"] = [c for c in stubs.CALLS if c[0] == "P"]
    return result, explicit


def judge(version, explicit_kind, transport, typ, until, result, explicit) -> List[dict]:
    out: List[dict] = []
    exp = expected(version, explicit, transport, typ)
    case = {"version": version, "explicit_api_version": explicit, "transport": transport, "type": typ}
    if exp[0] == "reject":
        if result["start"] == "ok":
            out.append(dict(case, kind="accepted_but_must_be_rejected", why=exp[1]))
        elif result["start"] != "ScenarioError":
            out.append(dict(case, kind="rejected_with_other_error", why=exp[1], error=result["start"], msg=result.get("msg")))
        return out
    if result["start"] != "ok":
        out.append(dict(case, kind="rejected_but_valid", error=result["start"], msg=result.get("msg")))
        return out
    shape = exp[1]
    if result.get("run") != "ok":
        out.append(dict(case, kind="run_failed_with_adapted_simulator", error=result.get("run")))
        return out
    if result.get("type_seen") != shape["type"]:
        out.append(dict(case, kind="type_not_defaulted", type_seen=result.get("type_seen"), expected=shape["type"]))
    calls = result["calls"]
    inits = [c for c in calls if c[1] == "init"]
    if len(inits) != 1:
        out.append(dict(case, kind="init_not_called_once", n=len(inits)))
    else:
        has_tr = "time_resolution" in inits[0][3] and inits[0][3]["time_resolution"] is not None
        if has_tr != shape["time_resolution"]:
            out.append(dict(case, kind="time_resolution_" + ("passed_to_old_init" if has_tr else "missing"),
                            kwargs=list(inits[0][3])))
    sd = [c for c in calls if c[1] == "setup_done"]
    if bool(sd) != shape["setup_done"] or len(sd) > 1:
        out.append(dict(case, kind="setup_done_" + ("sent_to_old_simulator" if sd else "not_sent"), n=len(sd)))
    steps = [c for c in calls if c[1] == "step"]
    if len(steps) != until:
        out.append(dict(case, kind="wrong_number_of_steps", n=len(steps), expected=until))
    for c in steps:
        n_args = len([a for a in c[2] if a != "<not passed>"])
        if n_args != shape["step_args"] or c[3]:
            out.append(dict(case, kind="step_arity", args=n_args, kwargs=list(c[3]), expected=shape["step_args"]))
            break
    fin = [c for c in calls if c[1] in ("finalize", "stop")]
    if len(fin) != 1:
        out.append(dict(case, kind="old_simulator_not_stopped_exactly_once", stop_or_finalize_calls=len(fin)))
    unknown = [c[1] for c in calls if c[1] not in ("init", "create", "setup_done", "step", "get_data", "finalize", "stop")]
    if unknown:
        out.append(dict(case, kind="unknown_request_sent", requests=unknown[:3]))
    return out


def seq_of(result):
    return [(c[2][0], json.dumps(c[2][1], sort_keys=True)) for c in result["calls"] if c[1] == "step"]


def run_slice(job: dict) -> dict:
    res: Dict[str, Any] = {"evaluations": 0, "counters": Counter(), "hashes": set(), "violations": [],
                           "samples": [], "aborted": 0}
    C = res["counters"]
    W, w = job["nworkers"], job["windex"]
    until = job["until"]

    def viol(v):
        C["violation_" + v["kind"]] += 1
        C["unlisted_violations"] += 1
        if len(res["violations"]) < 10:
            res["violations"].append({"v": v, "replay": {"case": {k: v.get(k) for k in
                                                                  ("version", "transport", "type")},
                                                         "explicit_kind": v.get("_ek"), "until": until,
                                                         "raise_at": ({"step": v["at_step"], "exc": v["exception"]}
                                                                      if "exception" in v else None)}})

    k = 0
    for version in VERSIONS:
        for ek in ("none", "equal", "different", "minor_different", "prefix", "major_only"):
            for transport in TRANSPORTS:
                for typ in ("hybrid", None):
                    k += 1
                    if k % W != w:
                        continue
                    if transport == "inproc_v1sig" and [2, 2] <= vlist(version) < [3]:
                        C["skipped_v1_stub_claiming_setup_done_version"] += 1
                        continue        # a simulator without setup_done cannot honestly announce >= 2.2
                    result, explicit = run_case(version, ek, transport, typ, until, C)
                    res["evaluations"] += 1
                    C["cases"] += 1
                    C["transport_" + {"inproc_v2strict": "inproc_v2sig", "inproc_v2sig_named_like_v3": "inproc_same_name",
                                      "inproc_v3sig_named_like_v2": "inproc_same_name",
                                      "inproc_v2sig_factory_after_v3": "inproc_same_name",
                                      "inproc_v3sig_factory_after_v2": "inproc_same_name"}.get(transport, transport)] += 1
                    exp = expected(version, explicit, transport, typ)
                    C["expected_" + exp[0]] += 1
                    vs = judge(version, ek, transport, typ, until, result, explicit)
                    for v in vs:
                        v["_ek"] = ek
                        viol(v)
                    if result["start"] == "ok" and result.get("run") == "ok":
                        C["accepted_runs"] += 1
                        C["requests_checked"] += len(result["calls"])
                        res["hashes"].add(H(version, ek, transport, typ) % (1 << 52))
                    if len(res["samples"]) < 2 and k % 13 == 0 and result["start"] == "ok":
                        res["samples"].append({"version": version, "explicit_api_version": explicit, "transport": transport,
                                               "type_in_meta": typ,
                                               "requests_received": [(c[1], len(c[2]), sorted(c[3])) for c in result["calls"]][:8]})
    # ---- extra methods of old simulators reach the simulator unchanged ("apart from that, it sees the same ...")
    import mosaik
    from .. import stubs
    n = 0
    for version in (None, "1", "2.0", "2.1", "2.2", "3.0"):
        for cls in ("V3Sig", "V2Sig"):
            if cls == "V2Sig" and vlist(version) >= [3]:
                continue
            n += 1
            if n % W != w:
                continue
            del stubs.CALLS[:]
            with warnings.catch_warnings():
                warnings.simplefilter("ignore")
                world = mosaik.World({"Stub": {"python": f"vlab.stubs:{cls}"}}, skip_greetings=True)
                try:
                    f = world.start("Stub", sim_id="X", cfg={"version": version, "type": "time-based", "extra_methods": True})
                    for name in stubs.EXTRA:
                        C["extra_method_calls"] += 1
                        ret = getattr(f, name)(7)
                        got = [c for c in stubs.CALLS if c[1] == "extra:" + name]
                        if ret != f"{name}:X" or len(got) != 1 or got[0][2] != (7,):
                            viol({"kind": "extra_method_call_did_not_reach_old_simulator", "version": version,
                                  "transport": "inproc_" + cls.lower(), "type": "time-based", "method": name,
                                  "returned": repr(ret), "calls_seen": len(got), "_ek": "none"})
                finally:
                    world.shutdown()
            res["evaluations"] += 1
    # ---- several instances of an old simulator that share one module-level meta dict: every instance is
    # adapted like the first one ------------------------------------------------------------------------------
    n = 0
    for version in (None, "1", "2.0", "2.2", "2.3"):
        n += 1
        if n % W != w:
            continue
        del stubs.CALLS[:]
        stubs.SHARED_META.clear()
        with warnings.catch_warnings():
            warnings.simplefilter("ignore")
            world = mosaik.World({"Stub": {"python": "vlab.stubs:SharedMetaV2"}}, skip_greetings=True)
            try:
                ents = []
                for k2 in range(3):
                    C["shared_meta_instances"] += 1
                    try:
                        f = world.start("Stub", sim_id=f"X{k2}", cfg={"version": version, "type": "time-based"})
                        ents.append(f.M())
                    except Exception as e:  # noqa: BLE001
                        viol({"kind": "rejected_but_valid", "version": version, "transport": "inproc_v3sig",
                              "type": "time-based", "instance_with_shared_meta": k2 + 1,
                              "error": f"{type(e).__name__}: {e}"[:200], "_ek": "none"})
                if len(ents) == 3:
                    world.connect(ents[0], ents[1], ("a", "b"))
                    world.run(until=until, print_progress=False)
            finally:
                world.shutdown()
        for k2 in range(3):
            calls = [c for c in stubs.CALLS if c[0] == f"X{k2}"]
            steps = [c for c in calls if c[1] == "step"]
            want = 3 if vlist(version) >= [3] else 2
            bad = [c for c in steps if len([a for a in c[2] if a != "<not passed>"]) != want]
            sd = [c for c in calls if c[1] == "setup_done"]
            if bad:
                viol({"kind": "step_arity", "version": version, "transport": "inproc_v3sig", "type": "time-based",
                      "instance_with_shared_meta": k2 + 1, "args": len(bad[0][2]), "expected": want, "_ek": "none"})
            if bool(sd) != (vlist(version) >= [2, 2]):
                viol({"kind": "setup_done_" + ("sent_to_old_simulator" if sd else "not_sent"), "version": version,
                      "transport": "inproc_v3sig", "type": "time-based", "instance_with_shared_meta": k2 + 1, "_ek": "none"})
        res["evaluations"] += 1
    # ---- several starts from ONE sim_config entry with an explicit api_version: every start is checked ------
    n = 0
    for explicit, reported in (("2.2", ["2.2", "3.0", "2.2"]), ("3.0", ["2.2", "2.2", "3.0"]), ("2.2", ["3.0", "3.0"]),
                               ("3.0", ["3.0", "3.0", "2.0"])):
        n += 1
        if n % W != w:
            continue
        with warnings.catch_warnings():
            warnings.simplefilter("ignore")
            world = mosaik.World({"Stub": {"python": "vlab.stubs:V3Sig", "api_version": explicit}}, skip_greetings=True)
            try:
                for k2, rep_v in enumerate(reported):
                    C["repeated_start_cases"] += 1
                    try:
                        world.start("Stub", sim_id=f"X{k2}", cfg={"version": rep_v, "type": "time-based"})
                        ok = True
                    except mosaik.exceptions.ScenarioError:
                        ok = False
                    if ok != (vlist(rep_v) == vlist(explicit)):
                        viol({"kind": "accepted_but_must_be_rejected" if ok else "rejected_but_valid", "version": rep_v,
                              "explicit_api_version": explicit, "transport": "inproc_v3sig", "type": "time-based",
                              "start_number_from_same_entry": k2 + 1, "_ek": "none"})
            finally:
                world.shutdown()
        res["evaluations"] += 1
    # ---- an old simulator that fails inside step(): the failure must surface, and the adapter must not
    # fall back to the un-adapted request (max_advance) or step the simulator twice ---------------------------
    n = 0
    for version in (None, "1", "2.0", "2.2", "2.3", "3.0"):
        for transport in ("inproc_v3sig", "inproc_v2sig"):
            if transport == "inproc_v2sig" and vlist(version) >= [3]:
                continue
            for exc in ("ValueError", "TypeError", "KeyError"):
                for at in (0, 1):
                    n += 1
                    if n % W != w:
                        continue
                    result, explicit = run_case(version, "none", transport, "time-based", until, C,
                                                raise_at={"step": at, "exc": exc})
                    res["evaluations"] += 1
                    C["failing_old_step_cases"] += 1
                    case = {"version": version, "transport": transport, "type": "time-based", "exception": exc, "at_step": at}
                    if result["start"] != "ok":
                        viol(dict(case, kind="rejected_but_valid", error=result["start"], _ek="none"))
                        continue
                    if result.get("run") == "ok":
                        viol(dict(case, kind="failure_of_old_simulator_swallowed", _ek="none"))
                    steps = [c for c in result["calls"] if c[1] == "step"]
                    want = 3 if vlist(version) >= [3] else 2
                    bad = [c for c in steps if len([a for a in c[2] if a != "<not passed>"]) != want]
                    if bad:
                        viol(dict(case, kind="step_arity", args=len(bad[0][2]), expected=want, note="after a failure inside step()", _ek="none"))
                    times = [c[2][0] for c in steps]
                    if len(times) != len(set(times)):
                        viol(dict(case, kind="old_simulator_stepped_twice_for_one_time", times=times, _ek="none"))
    # ---- differential: same scenario, 2.2 vs 3.0 (and 2.0, 1) ----------------------------
    pairs = [("inproc_v3sig", "2.2"), ("inproc_v3sig", "2.0"), ("raw_socket", "2.2"), ("raw_socket", "1"),
             ("raw_socket", "2.3"), ("inproc_v3sig", None)]
    for n, (transport, old) in enumerate(pairs):
        if n % W != w:
            continue
        ra, _ = run_case("3.0", "none", transport, "time-based", until + 2, C)
        rb, _ = run_case(old, "none", transport, "time-based", until + 2, C)
        res["evaluations"] += 2
        C["differential_pairs"] += 1
        if ra["start"] != "ok" or rb["start"] != "ok":
            viol({"kind": "differential_start_failed", "transport": transport, "old": old, "_ek": "none"})
            continue
        if seq_of(ra) != seq_of(rb):
            viol({"kind": "old_version_sees_different_schedule_or_data", "transport": transport, "version": old,
                  "v3": seq_of(ra)[:4], "old": seq_of(rb)[:4], "_ek": "none"})
        pa = [(c[1], c[2]) for c in ra["peer_calls"] if c[1] == "step"]
        pb = [(c[1], c[2]) for c in rb["peer_calls"] if c[1] == "step"]
        if [x[1][:2] for x in pa] != [x[1][:2] for x in pb]:
            viol({"kind": "peer_sees_different_data_from_old_version", "transport": transport, "version": old, "_ek": "none"})
    res["hashes"] = list(res["hashes"])
    res["counters"] = dict(C)
    return res


def replay(rep: dict) -> List[dict]:
    r = rep["replay"]
    c = r["case"]
    if c.get("transport") is None or "version" not in c:
        return []
    result, explicit = run_case(c["version"], r["explicit_kind"], c["transport"], c["type"], r["until"], Counter(),
                                raise_at=r.get("raise_at"))
    if r.get("raise_at"):
        out = []
        if result.get("run") == "ok":
            out.append(dict(rep["violation"]))
        steps = [x for x in result["calls"] if x[1] == "step"]
        want = 3 if vlist(c["version"]) >= [3] else 2
        if any(len([a for a in x[2] if a != "<not passed>"]) != want for x in steps):
            out.append(dict(rep["violation"], kind="step_arity"))
        return out
    return judge(c["version"], r["explicit_kind"], c["transport"], c["type"], r["until"], result, explicit)


def decide(m, tier):
    c = m["counters"]
    reasons = []
    if c.get("accepted_runs", 0) < 100:
        reasons.append("fewer than 100 accepted stub runs")
    if c.get("transport_raw_socket", 0) < 50:
        reasons.append("fewer than 50 raw-socket cases")
    if c.get("differential_pairs", 0) < 4:
        reasons.append("fewer than 4 differential pairs")
    return ("inconclusive" if reasons else "held"), reasons


def evidence(m, tier, seed):
    return {"level": "exploration", "coverage": {
        "rule": "version string in {absent, 1, 2, 2.0, 2.1, 2.2, 2.3, 2.10, 3, 3.0, 3.0.1, 3.1, 4, 4.0, 10.2} x explicit "
                "api_version in {none, equal, different major, different minor} x transport in {in-process v3 / v2 / strict v2 / v1 "
                "signatures, same-named classes with the opposite signatures started after each other in one "
                "process, raw-socket stub process without mosaik_api_v3} x type present/absent; old stubs failing "
                "inside step() (ValueError/TypeError/KeyError); extra methods (names that are substrings of API "
                "method names) called on old stubs; several starts from one sim_config entry with an explicit "
                "api_version; several instances sharing one module-level meta dict; accepted stubs are "
                "connected both ways to a v3 peer and run; oracle = version table (step arity, setup_done, "
                "time_resolution in init, type default, start accepted/rejected); differential 3.0 vs old version: "
                "same (time, inputs) sequence for the stub and same data for its peer; distinct_nontrivial = "
                "distinct accepted cases that ran",
        "exhaustive": True,
        "obligations": m["counters"].get("requests_checked", 0),
    }, "assumptions": ["explicit api_version 'equal' uses the identical string; '3' vs '3.0' style spellings of one "
                       "version are not judged"]}
