"""C16 Asynchronous requests (set_data / get_data) -- exactly-once history check."""
from __future__ import annotations

import random
from collections import Counter
from typing import Any, Dict, List

from ..build import run_case
from ..monitors import Analysis
from ..sims import H
from ._enga import POLICY_CYCLE, order_hash, scn_hash

PROP = "C16"
HEADLINE = ["runs", "set_data_values", "set_data_expected", "set_data_collapsed", "c16_order_checks",
            "c16_order_checks_agent_finished_meanwhile", "unauthorised_cases", "unauthorised_refused", "remote_runs"]

RATIOS = [(1, 1), (1, 2), (1, 3), (1, 4), (1, 5), (5, 1), (2, 1), (3, 1), (2, 3), (3, 2)]


def plan(tier, seed, scale):
    q = tier == "quick"
    return {"n_cases": int((1500 if q else 200000) * scale), "remote_every": 50 if q else 200,
            "timeout_s": 900 if q else 10800}


def mk_scn(rng: random.Random, unauthorised: str = "") -> dict:
    sa, sb = rng.choice(RATIOS)
    n_agents = rng.randint(1, 3)
    until = rng.randint(4, 12)
    a_type = rng.choice(["time-based", "time-based", "hybrid"])
    ents_a = ["e0", "e1"] if rng.random() < 0.4 else ["e0"]
    sims = [{"sid": "A", "type": a_type, "path": [], "entities": ents_a,
             "ins": {"c": "nontrigger", "d": "nontrigger"}, "outs": {"o": "persistent"},
             "beh": {"seed": rng.randrange(1 << 30), "sizes": [sa], "p_self": 1.0, "horizon": sa, "self_steps": None}}]
    if a_type == "hybrid":
        sims[0]["beh"]["self_steps"] = {str(t): t + sa for t in range(0, 64)}
    conns = []
    for k in range(n_agents):
        b_type = rng.choice(["time-based", "time-based", "event-based", "hybrid"])
        sid = f"B{k}"
        targets = []
        # an agent simulator may have several agent entities, all sent in ONE set_data call; with probability 1/2
        # they write the same attribute of the same entity of A (one input slot per source entity)
        ents_b = ["e0", "e1"] if rng.random() < 0.3 else ["e0"]
        same_attr = rng.random() < 0.5
        for ea in ents_a:
            attr = rng.choice(["c", "c", "d"])
            for eb in ents_b:
                if rng.random() < 0.8:
                    targets.append([f"{sid}.{eb}", f"A.{ea}", attr if same_attr else rng.choice(["c", "c", "d"])])
        beh: Dict[str, Any] = {"seed": rng.randrange(1 << 30), "sizes": [sb],
                               "agent": {"targets": targets, "p_set": rng.choice([0.3, 0.6, 1.0]),
                                         "get": [[f"A.{ents_a[0]}", "o"]], "p_get": rng.choice([0.0, 0.5])}}
        ins = {"i": "trigger" if b_type != "time-based" else "nontrigger"}
        if b_type == "hybrid":
            beh["self_steps"] = {str(t): t + sb for t in range(0, 64)}
        sims.append({"sid": sid, "type": b_type, "path": [], "entities": ents_b, "ins": ins, "outs": {},
                     "beh": beh})
        c = {"src": "A", "se": ents_a[0], "sa": "o", "dst": sid, "de": "e0", "da": "i", "async": True}
        if rng.random() < 0.3:
            # time-shifted data-flow + async_requests in one connect(): the ordering is still zero-delay
            c["shift"] = rng.randint(1, 2)
            c["init"] = f"init:A.{ents_a[0]}.o"
        conns.append(c)
        if rng.random() < 0.35:
            # the agent also feeds the controlled simulator through an ordinary time-shifted connection
            # (the agent is successor AND predecessor of A)
            sims[-1]["outs"]["bo"] = "persistent"
            sims[0]["ins"][f"fb{k}"] = "nontrigger"
            conns.append({"src": sid, "se": "e0", "sa": "bo", "dst": "A", "de": ents_a[0], "da": f"fb{k}",
                          "shift": rng.choice([1, 2, 2, 3]), "init": f"init:{sid}.e0.bo"})
    if rng.random() < 0.2 and until > 3:
        # the controlled simulator's first step is set with set_initial_event(t0 > 0): its agents step before that
        sims[0]["initial_event"] = rng.randint(1, min(4, until - 2))
    if rng.random() < 0.5:
        sims.append({"sid": "X", "type": "time-based", "path": [], "entities": ["e0"], "ins": {"i": "nontrigger"},
                     "outs": {"o": "persistent"}, "beh": {"seed": 5, "sizes": [rng.choice([1, 2])]}})
        if rng.random() < 0.5:
            # an ordinary persistent connection into the very attribute the agents write with set_data
            conns.append({"src": "X", "se": "e0", "sa": "o", "dst": "A", "de": ents_a[0], "da": rng.choice(["c", "d", "c2"])})
            sims[0]["ins"]["c2"] = "nontrigger"
    if rng.random() < 0.35:
        # simulator groups: the controlled simulator and its agents in the same group, nested or apart
        choice = rng.choice([([0], [0]), ([0], [0, 0]), ([0, 0], [0]), ([0], [1]), ([], [0]), ([0], [])])
        for s_ in sims:
            s_["path"] = list(choice[0] if s_["sid"] in ("A", "X") else choice[1])
        if choice[0] and a_type == "hybrid" and rng.random() < 0.6:
            # W triggers A at sub-steps (t,1) over a weak connection inside A's group
            sims[0]["ins"]["w"] = "trigger"
            sims.append({"sid": "W", "type": "event-based", "path": list(choice[0]), "entities": ["e0"], "ins": {},
                         "outs": {"o": "nonpersistent"}, "initial_event": 0,
                         "beh": {"seed": 3, "p_out": 1.0, "L": {"*": 5},
                                 "self_steps": {str(t): t + 1 for t in range(0, 64)}}})
            conns.append({"src": "W", "se": "e0", "sa": "o", "dst": "A", "de": ents_a[0], "da": "w", "weak": True})
    if unauthorised:
        # an agent without (async) connection to A tries to write / read
        tgt = "Nope.e0" if unauthorised.startswith("unknown_sim") else "A.e0"     # a simulator id nobody started
        is_get = unauthorised.endswith("get")
        beh = {"seed": 9, "sizes": [1], "agent": {"targets": [["U.e0", tgt, "c"]] if not is_get else [],
                                                  "p_set": 1.0,
                                                  "get": [[tgt, "o"]] if is_get else [], "p_get": 1.0}}
        sims.append({"sid": "U", "type": "time-based", "path": [], "entities": ["e0"], "ins": {"i": "nontrigger"},
                     "outs": {}, "beh": beh})
        if unauthorised in ("plain_conn", "get"):
            conns.append({"src": "A", "se": "e0", "sa": "o", "dst": "U", "de": "e0", "da": "i"})   # no async flag
    return {"until": until, "sims": sims, "conns": conns,
            "config": {"cache": rng.random() < 0.5, "lazy": rng.random() < 0.7, "order_seed": rng.randrange(1 << 20),
                       "debug": rng.random() < 0.2}}


def judge(scn, tr, a: Analysis) -> List[dict]:
    out = [dict(v) for v in a.viol["C16"]]
    # exactly-once / next-step delivery of set_data values: the C03 slot comparison restricted to set_data slots
    agent_ids = {f"{s['sid']}.{e}" for s in scn["sims"] if s["sid"].startswith(("B", "U")) for e in s["entities"]}
    for v in a.viol["C03"]:
        for d in v["diffs"]:
            if d["slot"][2] in agent_ids:
                cls = "set_data_lost_or_late" if d["observed"] == "<absent>" else (
                    "set_data_duplicated_or_unexpected" if d["expected"] == "<absent>" else "set_data_wrong_value")
                out.append({"kind": cls, "sim": v["sid"], "label": v["label"], "slot": d["slot"],
                            "expected": d["expected"], "observed": d["observed"], "i": v["i"]})
    return out


def run_slice(job: dict) -> dict:
    res: Dict[str, Any] = {"evaluations": 0, "counters": Counter(), "hashes": set(), "violations": [],
                           "samples": [], "aborted": 0}
    C = res["counters"]
    W, w = job["nworkers"], job["windex"]
    seed = job["seed"]

    def viol(v, scn, sched, tr):
        C["violation_" + v["kind"]] += 1
        C["unlisted_violations"] += 1
        if len(res["violations"]) < 10:
            rs = dict(sched, orig_policy=sched.get("policy"), policy="replay", schedule=tr["schedule"])
            res["violations"].append({"v": v, "replay": {"scn": scn, "sched": rs}})

    for i in range(w, job["n_cases"], W):
        rng = random.Random(H(seed, "c16", i))
        unauth = ""
        if i % 10 == 9:
            unauth = ["no_conn", "plain_conn", "get", "unknown_sim", "unknown_sim_get"][(i // 10) % 5]
        scn = mk_scn(rng, unauth)
        sched = dict(POLICY_CYCLE[i % len(POLICY_CYCLE)])
        sched["seed"] = H(seed, "c16s", i) % (1 << 31)
        tr = run_case(scn, sched)
        a = Analysis(scn, tr)
        res["evaluations"] += 1
        C["runs"] += 1
        C["runs_agent_simulator_with_two_entities"] += int(any(len(x["entities"]) > 1 for x in scn["sims"] if x["sid"].startswith("B")))
        C["runs_first_step_of_A_after_0"] += int(scn["sims"][0].get("initial_event") is not None)
        for k in ("set_data_values", "set_data_expected", "set_data_collapsed", "c16_order_checks",
                  "c16_order_checks_agent_inflight", "c16_order_checks_agent_finished_meanwhile"):
            C[k] += a.stats.get(k, 0)
        o = tr["outcome"]
        if unauth:
            C["unauthorised_cases"] += 1
            C["unauthorised_" + unauth] += 1
            if o["kind"] == "ok":
                viol({"kind": "unauthorised_request_accepted", "variant": unauth}, scn, sched, tr)
            elif o.get("type") != "ScenarioError":
                viol({"kind": "unauthorised_request_other_error", "variant": unauth, "type": o.get("type"),
                      "msg": o.get("msg", "")[:200]}, scn, sched, tr)
            else:
                C["unauthorised_refused"] += 1
            # no data left behind: A never sees a value written by U
            for st in a.steps["A"]:
                if "U.e0" in str(st["inputs"]):
                    viol({"kind": "unauthorised_data_delivered", "variant": unauth, "inputs": st["inputs"]}, scn, sched, tr)
                    break
            # everything before the refusal must still be consistent
            for v in judge(scn, tr, a):
                if v.get("slot", [None, None, ""])[2] != "U.e0":
                    viol(v, scn, sched, tr)
            continue
        if o["kind"] != "ok":
            res["aborted"] += 1
            viol({"kind": "run_failed", "type": o.get("type"), "msg": o.get("msg", "")[:200], "where": o.get("where")},
                 scn, sched, tr)
            continue
        for v in judge(scn, tr, a):
            viol(v, scn, sched, tr)
        for v in a.viol["C01"]:
            # an agent must not run its step at t before the controlled simulator's step at t is done
            # (async_requests makes the connection a zero-delay dependency whatever its data delay)
            viol(dict(v, kind="agent_not_synchronised_" + v["kind"]), scn, sched, tr)
        if a.stats.get("set_data_values") and tr["stats"]["max_inflight_sims"] >= 2:
            res["hashes"].add(H(scn_hash(scn), order_hash(tr["events"])) % (1 << 52))
        if len(res["samples"]) < 2 and i % 97 == 0 and a.stats.get("set_data_values"):
            writes = [(e["sid"], e["time"], list(e["data"].values())[0]) for e in tr["events"]
                      if e.get("op") == "async" and e.get("kind") == "set_data"][:4]
            res["samples"].append({"sims": [f"{s['sid']}:{s['type']}:{s['beh'].get('sizes')}" for s in scn["sims"]],
                                   "until": scn["until"], "policy": sched["policy"], "first_writes": writes,
                                   "A_inputs_first_steps": [(st["time"], st["inputs"]) for st in a.steps["A"][:4]]})
    # ---- the same over real processes: set_data/get_data travel over the socket -------------------
    from ..remotelab import merged_trace, run_remote
    n_remote = job["n_cases"] // job["remote_every"]
    for j in range(w, n_remote, W):
        rng = random.Random(H(seed, "c16r", j))
        unauth = ["", "", "", "no_conn", "plain_conn"][j % 5]
        scn = mk_scn(rng, unauth)
        scn["until"] = min(scn["until"], 6)
        rt = run_remote(scn, max_sleep=0.003, sleep_seed=j)
        res["evaluations"] += 1
        C["remote_runs"] += 1
        if rt["outcome"]["kind"] == "watchdog":
            C["remote_watchdog_inconclusive"] += 1
            continue
        tr = merged_trace(rt)
        a = Analysis(scn, tr)
        C["remote_set_data_expected"] += a.stats.get("set_data_expected", 0)
        sched = {"policy": "remote"}
        tr["schedule"] = []
        if unauth:
            C["remote_unauthorised_cases"] += 1
            rets = [e for e in tr["events"] if e.get("op") == "async_ret" and e["sid"] == "U"]
            if not rets or rets[0].get("ok") or "ScenarioError" not in (rets[0].get("err") or ""):
                viol({"kind": "unauthorised_request_accepted", "variant": unauth, "transport": "remote",
                      "reply": rets[:1]}, scn, sched, tr)
            else:
                C["remote_unauthorised_refused"] += 1
            for st in a.steps["A"]:
                if "U.e0" in str(st["inputs"]):
                    viol({"kind": "unauthorised_data_delivered", "variant": unauth, "transport": "remote"}, scn, sched, tr)
                    break
            continue
        if rt["outcome"]["kind"] != "ok":
            viol({"kind": "run_failed", "transport": "remote", "type": rt["outcome"].get("type"),
                  "msg": rt["outcome"].get("msg", "")[:200]}, scn, sched, tr)
            continue
        for v in judge(scn, tr, a):
            viol(dict(v, transport="remote"), scn, sched, tr)
    res["hashes"] = list(res["hashes"])
    res["counters"] = dict(C)
    return res


def replay(rep: dict) -> List[dict]:
    r = rep["replay"]
    if r["sched"].get("policy") == "remote":
        from ..remotelab import merged_trace, run_remote
        tr = merged_trace(run_remote(r["scn"], max_sleep=0.003))
    else:
        tr = run_case(r["scn"], dict(r["sched"]))
    a = Analysis(r["scn"], tr)
    out = judge(r["scn"], tr, a)
    out += [dict(x, kind="agent_not_synchronised_" + x["kind"]) for x in a.viol["C01"]]
    v = rep["violation"]
    if v["kind"].startswith("unauthorised") and tr["outcome"]["kind"] == "ok":
        out.append(v)
    if v["kind"] == "run_failed" and tr["outcome"]["kind"] != "ok":
        out.append(v)
    return out


def decide(m, tier):
    c = m["counters"]
    reasons = []
    if c.get("set_data_expected", 0) < 3000:
        reasons.append("fewer than 3000 written values were checked at the receiver")
    if c.get("c16_order_checks_agent_finished_meanwhile", 0) < 300:
        reasons.append("fewer than 300 steps of the controlled simulator began after an agent had finished a step "
                       "since its previous step (the wait was never real)")
    if c.get("unauthorised_refused", 0) < 50:
        reasons.append("fewer than 50 unauthorised requests refused")
    if c.get("set_data_collapsed", 0) < 20:
        reasons.append("fewer than 20 superseded writes (several writes before the next step)")
    return ("inconclusive" if reasons else "held"), reasons


def evidence(m, tier, seed):
    return {"level": "exploration", "coverage": {
        "rule": "generated scenarios: controlled simulator A (time-based/hybrid, 1-2 entities) and 1-3 agents "
                "(time-based/event-based/hybrid) with async_requests, step-size ratios 1:1..1:5, 5:1, 2:1, 3:1, 2:3, "
                "3:2, sparse set_data with unique values, optional get_data, rotating schedule policies, cache/lazy; "
                "history check: every written value in exactly the next step of A (latest wins per key), A never "
                "begins a later step while an agent step is unfinished; every 10th case an unauthorised writer/"
                "reader (no connection / connection without async_requests) must end in ScenarioError and leave no "
                "data; distinct_nontrivial = distinct (scenario, global order) with at least one write and two "
                "simulators in flight",
        "exhaustive": False,
        "obligations": m["counters"].get("set_data_expected", 0) + m["counters"].get("c16_order_checks", 0),
    }, "assumptions": ["in-process transport with controlled reply order plus a sample over real processes (remote_runs: set_data/get_data over the socket, events merged by the monotonic clock); the content returned by the asynchronous "
                       "get_data is recorded but not part of the property"]}
