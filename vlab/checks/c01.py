"""C01 Causal input readiness -- ordering predicate per connection over model labels."""
from ._enga import run_slice_mon, replay_mon, sizes

PROP = "C01"
HEADLINE = ["c01_pairs_checked", "c01_consumer_steps", "c01_consumer_steps_feeder_was_inflight",
            "runs_with_2plus_sims_in_flight"]


def plan(tier, seed, scale):
    return {"n_cases": sizes(tier, scale, 2400, 60000), "variants": 4, "rt_every": 7,
            "profiles": ["core", "flat", "deep", "events", "par", "big", "chain", "lazy", "wild", "sibling"],
            "remote_cases": int((32 if tier == "quick" else 1600) * scale),
            "dfs_cases": int((96 if tier == "quick" else 1600) * scale), "dfs_cap": 300 if tier == "quick" else 20000,
            "dfs_budget_s": 1.5 if tier == "quick" else 20.0,
            "timeout_s": 600 if tier == "quick" else 7200}


def obligations(st):
    return st.get("c01_pairs_checked", 0)


def run_slice(job):
    return run_slice_mon(job, PROP, obligations)


def replay(rep):
    return replay_mon(rep, PROP)


def decide(m, tier):
    c = m["counters"]
    reasons = []
    if c.get("c01_consumer_steps_feeder_was_inflight", 0) < 500:
        reasons.append("fewer than 500 consumer steps whose producer had been in flight since the consumer's previous step")
    if c.get("runs_with_2plus_sims_in_flight", 0) < 0.3 * max(1, m["evaluations"]):
        reasons.append("fewer than 30% of runs had two simulators in flight at once")
    if m["aborted"] > 0.2 * max(1, m["evaluations"]):
        reasons.append("more than 20% of runs aborted")
    return ("inconclusive" if reasons else "held"), reasons


def evidence(m, tier, seed):
    return {"level": "exploration", "coverage": {
        "rule": "case = generated scenario (profile x seed) x schedule policy x cache/lazy variant, run on the real "
                "scheduler under the controlled loop; distinct = hash(scenario, config, global order of step "
                "begins/ends and get_data returns); non-trivial = at least two simulators in flight at once and at "
                "least one (producer, consumer, connection) ordering obligation checked",
        "obligations": m["counters"].get("c01_pairs_checked", 0),
    }, "assumptions": ["labels are model labels (documentation-derived arithmetic), cross-checked against mosaik's "
                       "current_step: see counters label_crosscheck_ok/mismatch",
                       "schedules outside the explored set and topologies beyond 6 simulators / depth 3 are not covered"]}
