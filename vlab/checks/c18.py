"""C18 Bulk connection helpers -- counting oracle over recorded World.connect calls."""
from __future__ import annotations

import random
from collections import Counter
from typing import Any, Dict, List

from ..sims import H

PROP = "C18"
HEADLINE = ["calls_evenly", "calls_random", "calls_many_to_one", "connect_calls_recorded", "saturating_cases"]


def plan(tier, seed, scale):
    q = tier == "quick"
    return {"max_src": 12 if q else 24, "max_dest": 6 if q else 10, "seeds": int((50 if q else 500) * scale) or 5,
            "n_cases": 1, "timeout_s": 900 if q else 10800}


class Ent:
    __slots__ = ("name",)

    def __init__(self, name):
        self.name = name

    def __repr__(self):
        return self.name


class RecWorld:
    def __init__(self):
        self.calls: List[tuple] = []

    def connect(self, src, dest, *attrs, **kw):
        self.calls.append((src, dest, attrs, kw))


def check_many_to_one(ns, C, viol, res=None, only=None, dest_in_src=False):
    from mosaik import util
    import itertools
    src = [Ent(f"s{i}") for i in range(ns)]
    d = src[ns // 2] if dest_in_src and ns else Ent("d")     # the destination may be one of the sources
    C["many_to_one_destination_among_sources"] += int(bool(dest_in_src and ns))
    # src_set is typed Iterable[Entity]; the documentation uses itertools.chain(...) -- one-shot iterables count
    shapes = {"list": lambda: list(src), "tuple": lambda: tuple(src), "iter": lambda: iter(src),
              "chain": lambda: itertools.chain(src[:ns // 2], src[ns // 2:]),
              "generator": lambda: (e for e in src), "filter": lambda: filter(None, src),
              "dict_keys": lambda: dict.fromkeys(src).keys()}
    for shape, mk in shapes.items():
        for asy in (False, True):
            if only and (shape, asy) != only:
                continue
            for attrs in (("a", ("b", "c")), ("a",), ()):
                rw = RecWorld()
                util.connect_many_to_one(rw, mk(), d, *attrs, async_requests=asy)
                C["calls_many_to_one"] += 1
                C["many_to_one_src_" + shape] += 1
                C["many_to_one_attr_pairs_%d" % len(attrs)] += 1
                if res is not None:
                    res["evaluations"] += 1
                if [c[0] for c in rw.calls] != src or any(c[1] is not d for c in rw.calls) or \
                        any(c[2] != attrs for c in rw.calls) or \
                        any(c[3].get("async_requests", False) != asy for c in rw.calls):
                    viol("many_to_one_wrong", case={"n_src": ns, "src_set": shape, "async_requests": asy, "dest_in_src": dest_in_src,
                                                    "attrs": list(map(str, attrs))})


def check_case(ns, nd, evenly, maxc, rseed, C, viol, overlap="", real=False):
    from mosaik import util
    src = [Ent(f"s{i}") for i in range(ns)]
    dest = [Ent(f"d{i}") for i in range(nd)]
    w = RecWorld()
    if real:
        # the real World with real entities of two in-process simulators; World.connect is recorded, then executed
        import mosaik
        import warnings
        from ..build import setup_logging
        setup_logging()
        with warnings.catch_warnings():
            warnings.simplefilter("ignore")
            world = mosaik.World({"S": {"python": "vlab.sims:ScriptedSim"}}, skip_greetings=True)
            try:
                spec = {"type": "hybrid", "entities": [f"e{i}" for i in range(max(ns, nd, 1))],
                        "ins": {"b": "trigger", "a": "trigger", "c": "trigger"}, "outs": {"a": "nonpersistent", "b": "nonpersistent"}}
                fa = world.start("S", sim_id="SimA", spec=spec)
                fb = world.start("S", sim_id="SimB", spec=spec)
                src = list(fa.M.create(ns)) if ns else []
                dest = list(fb.M.create(nd))
                orig = world.connect
                rec = RecWorld()

                def recording_connect(s_, d_, *attrs, **kw):
                    rec.calls.append((s_, d_, attrs, kw))
                    return orig(s_, d_, *attrs, **kw)
                world.connect = recording_connect        # type: ignore[method-assign]
                return _check_case(util, world, rec, src, dest, ns, nd, evenly, maxc, rseed, C, viol, overlap, True)
            finally:
                world.shutdown()
    return _check_case(util, w, w, src, dest, ns, nd, evenly, maxc, rseed, C, viol, overlap, False)


def _check_case(util, world, w, src, dest, ns, nd, evenly, maxc, rseed, C, viol, overlap, real):
    if overlap == "peers":
        # peer topology: the destination set contains (some of) the sources themselves; connecting an entity to
        # itself is accepted by World.connect, so "every source exactly once" holds here as well
        dest = [src[i] if i < ns and (i % 2 == 0 or rseed & 64) else dest[i] for i in range(nd)]
        C["calls_with_sources_in_destination_set"] += 1
    random.seed(rseed)
    case = {"n_src": ns, "n_dest": nd, "evenly": evenly, "max_connects": maxc, "random_seed": rseed,
            "sources_in_destination_set": overlap, "real_world": real}
    inadmissible = (not evenly) and maxc is not None and ns > nd * maxc
    kw: Dict[str, Any] = {"evenly": evenly}
    if maxc is not None:
        kw["max_connects"] = maxc
    try:
        # sequences of either kind (the destination set is copied before it is shuffled)
        src_arg = tuple(src) if rseed & 4 else list(src)
        dest_arg = tuple(dest) if rseed & 8 else list(dest)
        # with two attribute pairs, with one, or with none (a relation only)
        attrs = (("a", ("b", "c")), ("a",), ())[(rseed >> 4) % 3]
        case["attrs"] = list(map(str, attrs))
        ret = util.connect_randomly(world, src_arg, dest_arg, *attrs, **kw)
    except Exception as e:  # noqa: BLE001
        if inadmissible:
            # more sources than the destinations can take: refusing is the only correct answer
            C["inadmissible_requests_refused"] += 1
            return
        viol("exception_on_admissible_input", case=case, error=f"{type(e).__name__}: {e}",
             connects_before_error=len(w.calls))
        return
    if inadmissible:
        C["inadmissible_requests_returned_normally"] += 1     # judged by the same postconditions: one of them must fail
    C["calls_evenly" if evenly else "calls_random"] += 1
    C["calls_real_world"] += int(real)
    C["connect_calls_recorded"] += len(w.calls)
    per_src = Counter(c[0] for c in w.calls)
    per_dest = Counter(c[1] for c in w.calls)
    if set(per_src) != set(src) or any(v != 1 for v in per_src.values()):
        viol("source_not_connected_exactly_once", case=case,
             counts={repr(k): v for k, v in per_src.items() if v != 1},
             missing=[repr(s) for s in src if s not in per_src])
    if any(c[1] not in dest for c in w.calls):
        viol("connected_to_foreign_destination", case=case)
    if any(c[2] != attrs for c in w.calls):
        viol("attributes_not_passed_through", case=case)
    # "the destination set" is the caller's own object: after the call every connected and every returned entity
    # is (still) a member of it, and the sources are the caller's sources
    if any(c[1] not in dest_arg for c in w.calls) or any(d not in dest_arg for d in ret) or \
            list(src_arg) != src:
        viol("connected_or_returned_entity_not_in_callers_destination_set_after_the_call", case=case,
             destination_set_after_call=[repr(d) for d in dest_arg])
    counts = [per_dest.get(d, 0) for d in dest]
    if evenly and max(counts) - min(counts) > 1:
        viol("not_even", case=case, counts=counts)
    if not evenly and maxc is not None and max(counts) > maxc:
        viol("exceeds_max_connects", case=case, counts=counts)
    if set(ret) != set(per_dest):
        viol("returned_set_wrong", case=case, returned=sorted(map(repr, ret)), connected=sorted(map(repr, per_dest)))
    if not evenly and maxc is not None and ns == nd * maxc:
        C["saturating_cases"] += 1


def run_slice(job: dict) -> dict:
    from mosaik import util
    res: Dict[str, Any] = {"evaluations": 0, "counters": Counter(), "hashes": set(), "violations": [],
                           "samples": [], "aborted": 0}
    C = res["counters"]
    W, w = job["nworkers"], job["windex"]

    def viol(kind, **kw):
        kw["kind"] = kind
        C["violation_" + kind] += 1
        C["unlisted_violations"] += 1
        if len(res["violations"]) < 10:
            res["violations"].append({"v": kw, "replay": {"case": kw.get("case")}})

    k = 0
    for ns in range(0, job["max_src"] + 1):
        for nd in range(1, job["max_dest"] + 1):
            for evenly in (True, False):
                for maxc in ([None, 1, 2, 5] if evenly else [None, 1, 2, 3, 4]):
                    # (evenly=True: max_connects is documented as "only taken into account if evenly is False")
                    if not evenly and maxc is not None and ns > nd * (maxc + 1):
                        continue        # far outside the documented precondition
                    for s in range(job["seeds"]):
                        k += 1
                        if k % W != w:
                            continue
                        rseed = H(job["seed"], ns, nd, evenly, maxc, s) % (1 << 31)
                        # (requests just beyond the precondition |src| <= |dest|*max_connects are kept: they must be
                        # refused, or else fail a postcondition)
                        check_case(ns, nd, evenly, maxc, rseed, C, viol,
                                   overlap="peers" if (k // W) % 5 == 1 else "", real=(k // W) % 40 == 7)
                        res["evaluations"] += 1
                        if ns >= 2 and nd >= 2:
                            res["hashes"].add(H(ns, nd, evenly, maxc, rseed) % (1 << 52))
                        if len(res["samples"]) < 2 and k % 4001 == 0:
                            res["samples"].append({"n_src": ns, "n_dest": nd, "evenly": evenly, "max_connects": maxc,
                                                   "random_seed": rseed})
    # connect_many_to_one
    for ns in range(0, job["max_src"] + 1):
        if ns % W != w:
            continue
        check_many_to_one(ns, C, viol, res)
        check_many_to_one(ns, C, viol, res, dest_in_src=True)
    res["hashes"] = list(res["hashes"])
    res["counters"] = dict(C)
    return res


def replay(rep: dict) -> List[dict]:
    c = rep["replay"]["case"]
    out: List[dict] = []

    def viol(kind, **kw):
        kw["kind"] = kind
        out.append(kw)
    if c and "n_dest" in c:
        check_case(c["n_src"], c["n_dest"], c["evenly"], c["max_connects"], c["random_seed"], Counter(), viol,
                   overlap=c.get("sources_in_destination_set", ""), real=c.get("real_world", False))
    elif c and "src_set" in c:
        check_many_to_one(c["n_src"], Counter(), viol, None, (c["src_set"], c["async_requests"]),
                          dest_in_src=c.get("dest_in_src", False))
    return out


def decide(m, tier):
    c = m["counters"]
    reasons = []
    if c.get("calls_evenly", 0) < 1000 or c.get("calls_random", 0) < 1000:
        reasons.append("fewer than 1000 completed calls per mode")
    if c.get("inadmissible_requests_refused", 0) + c.get("inadmissible_requests_returned_normally", 0) < 100:
        reasons.append("fewer than 100 requests just beyond the capacity of the destinations")
    if c.get("calls_with_sources_in_destination_set", 0) < 200 or c.get("calls_real_world", 0) < 50:
        reasons.append("too few calls with overlapping sets / on the real World")
    if c.get("saturating_cases", 0) < 50:
        reasons.append("fewer than 50 completed cases where the sources exactly saturate the destinations")
    return ("inconclusive" if reasons else "held"), reasons


def evidence(m, tier, seed):
    return {"level": "exploration", "coverage": {
        "rule": "all (|src| <= max_src, 1 <= |dest| <= max_dest, evenly, max_connects in {inf,1,2,3,4}; evenly=True also with a finite max_connects, which is documented as ignored) with "
                "|src| <= |dest|*max_connects x random seeds, on a recording world; distinct_nontrivial = distinct "
                "(sizes, mode, cap, seed) with at least two sources and two destinations; connect_many_to_one with the "
                "source set as list / tuple / iterator / itertools.chain / generator / filter object / dict keys, async_requests on and off; "
                "two, one or no attribute pairs; every fifth case with sources inside the destination set (peer topology), the single destination "
                "of connect_many_to_one among its sources; requests just beyond |src| <= |dest|*max_connects (must be refused or fail a "
                "postcondition); every 40th case on the real World with real entities (connect recorded, then executed); membership in the caller's own destination list judged after the call as well",
        "exhaustive": False,
        "obligations": m["counters"].get("connect_calls_recorded", 0),
    }, "assumptions": ["the random module's global state is seeded per case"]}
