"""C17 Real-time pacing and external events on a virtual clock -- pacing arithmetic."""
from __future__ import annotations

import math
import random
from collections import Counter
from typing import Any, Dict, List

from ..build import run_case
from ..monitors import Analysis
from ..sims import H
from ._enga import order_hash, scn_hash

PROP = "C17"
HEADLINE = ["runs", "instant_runs", "slow_runs", "blocking_runs", "strict_pairs", "steps_paced", "events_injected_future",
            "events_injected_beyond_until", "set_event_without_rt", "grouped_runs"]

FACTORS = [0.125, 0.25, 0.5, 1.0, 2.0, 4.0]
RESOLUTIONS = [0.5, 1.0, 2.0]


def plan(tier, seed, scale):
    q = tier == "quick"
    return {"n_cases": int((1600 if q else 600000) * scale), "timeout_s": 900 if q else 10800}


def mk_scn(rng: random.Random, cls: str) -> dict:
    n = rng.randint(1, 4)
    until = rng.randint(3, 8)
    grouped = rng.random() < 0.4
    sims = []
    for i in range(n):
        typ = rng.choice(["time-based", "time-based", "hybrid", "event-based"])
        path = rng.choice([[0], [0, 0], [1]]) if grouped and rng.random() < 0.7 else []
        size = rng.choice([1, 1, 2, 3])
        beh: Dict[str, Any] = {"seed": rng.randrange(1 << 30), "sizes": [size], "p_out": 1.0, "amplify": False}
        s = {"sid": f"S{i}", "type": typ, "path": path, "entities": ["e0"],
             "ins": {"i0": "trigger" if typ != "time-based" else "nontrigger",
                     "i1": "trigger" if typ == "event-based" else "nontrigger"},
             "outs": {"o0": "persistent" if typ != "event-based" else "nonpersistent"}, "beh": beh}
        if typ != "time-based":
            beh["self_steps"] = {str(t): t + size for t in range(0, 40)}
        if typ == "event-based":
            s["initial_event"] = rng.randrange(0, 2)
        if cls == "blocking":
            # in-process simulators block the loop while they compute: virtual time passes inside step()
            blk = {}
            for t in range(until):
                if rng.random() < 0.4:
                    blk[str(t)] = rng.choice([0.25, 0.5, 1.5, 2.5, 5.0])
            if i == 0:
                blk["0"] = rng.choice([1.5, 2.5, 5.0, 9.0])     # the very first step of the first simulator
            beh["block"] = blk
        if cls == "slow":
            dur = {}
            for t in range(until):
                if rng.random() < 0.3:
                    dur[str(t)] = rng.choice([0.25, 0.5, 1.5, 2.5, 5.0])
            beh["dur"] = dur
        sims.append(s)
    conns = []
    for _ in range(rng.randint(0, n + 1)):
        a, b = rng.sample(range(n), 2) if n >= 2 else (0, 0)
        if a == b:
            continue
        if a > b and rng.random() < 0.7:
            a, b = b, a
        sa, sb = sims[a], sims[b]
        da = rng.choice(["i0", "i1"])
        if any(c["src"] == sa["sid"] and c["dst"] == sb["sid"] and c["da"] == da for c in conns):
            continue
        c: Dict[str, Any] = {"src": sa["sid"], "se": "e0", "sa": "o0", "dst": sb["sid"], "de": "e0", "da": da}
        if a > b:
            c["shift"] = 1
            if sa["outs"]["o0"] == "persistent":
                c["init"] = f"init:{sa['sid']}"
            elif sb["ins"][da] != "trigger":
                continue
        conns.append(c)
    f_rt = rng.choice(FACTORS)
    res = rng.choice(RESOLUTIONS)
    if rng.random() < 0.3:
        # a simulator whose setup_done takes a while: the real-time clock starts when stepping starts
        rng.choice(sims)["beh"]["setup_dur"] = rng.choice([0.25, 1.25, 2.5]) * f_rt * res   # binary-exact: no float noise in the lateness arithmetic
    cfg = {"cache": rng.random() < 0.5, "lazy": rng.random() < 0.7, "rt_factor": f_rt, "time_resolution": res}
    scn: Dict[str, Any] = {"until": until, "sims": sims, "conns": conns, "config": cfg, "cls": cls}
    f = f_rt * res
    if cls == "events":
        # an event-based receiver of external events
        path = rng.choice([[0], [0, 0]]) if grouped else []
        etyp = rng.choice(["event-based", "event-based", "event-based", "time-based", "hybrid"])
        ebeh: Dict[str, Any] = {"seed": 4, "p_out": 1.0, "amplify": False}
        if etyp != "event-based":
            # a receiver with a regular schedule of its own (step size 2 or 3): events land between and on its steps
            esize = rng.choice([2, 3])
            ebeh["sizes"] = [esize]
            if etyp == "hybrid":
                ebeh["self_steps"] = {str(t): t + esize for t in range(0, 40)}
        if rng.random() < 0.4:
            # the receiver also schedules events for itself from inside step(): set_event(time + d)
            ebeh["set_events"] = {"*": [-rng.choice([1, 2, 3])]}
        sims.append({"sid": "E", "type": etyp, "path": path, "entities": ["e0"],
                     "ins": {"i0": "trigger" if etyp != "time-based" else "nontrigger"},
                     "outs": {"o0": "nonpersistent" if etyp == "event-based" else "persistent"}, "set_events": True,
                     "beh": ebeh})
        if rng.random() < 0.5 and sims[0]["type"] != "time-based":
            conns.append({"src": "E", "se": "e0", "sa": "o0", "dst": sims[0]["sid"], "de": "e0", "da": "i0"})
        inj = []
        used = set()
        for _ in range(rng.randint(1, 3)):
            tau = (rng.randrange(0, until * 4) + rng.choice([0.25, 0.5, 0.75])) / 4 * f
            tmin = math.ceil(tau / f)
            kind = rng.choice(["future", "future", "beyond"])
            if kind == "future" and tmin < until:
                t = rng.randint(tmin, until - 1)
            else:
                t = until + rng.randint(0, 3)
            if t in used:
                continue
            used.add(t)
            inj.append({"sid": "E", "t": t, "tau": tau})
        scn["inject_events"] = inj
    return scn


def _zero_delay_depth(scn: dict, sid: str) -> int:
    """Length of the longest chain of non-shifted predecessors ending in sid (0 = no predecessor)."""
    preds: Dict[str, set] = {}
    for c in scn["conns"]:
        if c["src"] != c["dst"] and not c.get("shift"):
            preds.setdefault(c["dst"], set()).add(c["src"])
    memo: Dict[str, int] = {}

    def depth(x, seen=()):
        if x in memo:
            return memo[x]
        if x in seen:
            return 0
        r = max((1 + depth(p, seen + (x,)) for p in preds.get(x, ())), default=0)
        memo[x] = r
        return r
    return depth(sid)


def judge(scn: dict, tr: dict) -> List[dict]:
    out: List[dict] = []
    cfg = scn["config"]
    f = cfg["rt_factor"] * cfg.get("time_resolution", 1.0)
    o = tr["outcome"]
    strict = bool(cfg.get("rt_strict"))
    too_slow_logs = [l for l in tr["logs"] if "too slow" in l["msg"]]
    # (a) pacing lower bound
    for e in tr["events"]:
        if e.get("op") == "call" and e.get("kind") == "step":
            if e["vt"] < f * (e["time"] - 1) - 1e-9:
                out.append({"kind": "step_begins_too_early", "sid": e["sid"], "time": e["time"], "virtual_elapsed": e["vt"],
                            "earliest_allowed": f * (e["time"] - 1)})
                break
    # (b) completion without internal error
    if o["kind"] != "ok":
        if not (strict and o.get("type") == "RuntimeError" and "too slow" in o.get("msg", "")):
            out.append({"kind": "real_time_run_failed", "type": o.get("type"), "msg": o.get("msg", "")[:200],
                        "where": o.get("where")})
    # (c) instant simulators are never reported as too slow
    if scn["cls"] in ("instant", "events"):
        if too_slow_logs or (o["kind"] != "ok" and "too slow" in o.get("msg", "")):
            first = too_slow_logs[0] if too_slow_logs else {"msg": o.get("msg"), "i": None}
            who = None
            if first.get("i") is not None:
                # the report follows the step return of the reported simulator
                prev = [e for e in tr["events"][:first["i"]] if e.get("op") == "ret" and e.get("kind") == "step"]
                who = prev[-1]["sid"] if prev else None
            has_pred = who is not None and any(c["dst"] == who and c["src"] != who and not c.get("shift")
                                               for c in scn["conns"])
            # every report: which simulator, how late, and how long its chain of zero-delay predecessors is
            # (the known mechanism delays a simulator by at most one slot per predecessor in that chain)
            worst_excess = 0.0
            all_have_pred = True
            import re as _re
            for lg in too_slow_logs:
                prev = [e for e in tr["events"][:lg["i"]] if e.get("op") == "ret" and e.get("kind") == "step"]
                w2 = prev[-1]["sid"] if prev else None
                mt = _re.search(r"- ([0-9.eE+-]+)s behind time", lg["msg"])
                delta = float(mt.group(1)) if mt else float("inf")
                d = _zero_delay_depth(scn, w2) if w2 else 0
                if d == 0:
                    all_have_pred = False
                worst_excess = max(worst_excess, delta - d * f)
            out.append({"kind": "too_slow_reported_with_instant_simulators", "reports": len(too_slow_logs),
                        "first": first["msg"][:120], "reported_simulator": who,
                        "reported_simulator_has_zero_delay_predecessor": has_pred and all_have_pred,
                        "lateness_beyond_one_slot_per_predecessor": round(worst_excess, 9) if too_slow_logs else None,
                        "strict": strict})
    # (d) a step longer than a whole slot must be reported
    if scn["cls"] == "slow":
        long_steps = [(s["sid"], t, d) for s in scn["sims"] for t, d in (s["beh"].get("dur") or {}).items() if d > f]
        executed = {(e["sid"], str(e["time"])) for e in tr["events"] if e.get("op") == "ret" and e.get("kind") == "step"}
        must = [x for x in long_steps if (x[0], x[1]) in executed]
        if must and not too_slow_logs and o["kind"] == "ok":
            out.append({"kind": "slow_step_not_reported", "steps": must[:3], "f": f})
    # (e) external events
    a = None
    for inj in scn.get("inject_events", []):
        ret = next((e for e in tr["events"] if e.get("op") == "inject_ret" and e["t"] == inj["t"]), None)
        steps = [e for e in tr["events"] if e.get("op") == "call" and e.get("kind") == "step"
                 and e["sid"] == inj["sid"] and e["time"] == inj["t"]]
        fired = any(e.get("op") == "inject" and e["t"] == inj["t"] for e in tr["events"])
        if not fired:
            continue     # the run ended before the instant tau
        # (the call itself happens somewhere between the 'inject' and the 'inject_ret' record: a step that begins
        # in between may or may not have been known to set_event)
        inj_i = ret["i"] if ret is not None else next(e["i"] for e in tr["events"]
                                                      if e.get("op") == "inject" and e["t"] == inj["t"])
        if any(e.get("op") == "call" and e.get("kind") == "step" and e["sid"] == inj["sid"] and e["time"] >= inj["t"]
               and e["i"] < inj_i for e in tr["events"]):
            continue     # the receiver had already reached t on its own schedule: t is not a future time for it
        if inj["t"] < scn["until"]:
            if ret is None or not ret.get("ok"):
                out.append({"kind": "set_event_failed", "t": inj["t"], "tau": inj["tau"], "result": ret})
            elif o["kind"] == "ok" and len(steps) != 1:
                out.append({"kind": "external_event_did_not_cause_exactly_one_step", "t": inj["t"], "tau": inj["tau"],
                            "steps_at_t": len(steps)})
        else:
            if steps:
                out.append({"kind": "event_after_end_caused_a_step", "t": inj["t"]})
            if not any("after simulation end" in l["msg"] for l in tr["logs"]):
                out.append({"kind": "event_after_end_without_warning", "t": inj["t"]})
    # (e2) events a simulator sets for itself from inside step()
    if o["kind"] == "ok":
        for e in tr["events"]:
            if e.get("op") == "async" and e.get("kind") == "set_event":
                if e["t"] < scn["until"] and e["t"] > e["time"]:
                    n_st = sum(1 for e2 in tr["events"] if e2.get("op") == "call" and e2.get("kind") == "step"
                               and e2["sid"] == e["sid"] and e2["time"] == e["t"])
                    injected_too = any(e2.get("op") == "inject" and e2["sid"] == e["sid"] and e2["t"] == e["t"]
                                       for e2 in tr["events"])
                    if n_st < 1 or (n_st > 1 and not injected_too):
                        out.append({"kind": "event_set_inside_step_did_not_cause_exactly_one_step", "sid": e["sid"],
                                    "set_at": e["time"], "t": e["t"], "steps_at_t": n_st})
                        break
    return out


def prefix_sig(tr: dict, upto_i):
    sig = []
    for e in tr["events"]:
        if upto_i is not None and e["i"] >= upto_i:
            break
        if e.get("op") in ("call", "ret") and e.get("kind") in ("step", "get_data"):
            sig.append((e["op"], e["kind"], e["sid"], e.get("time"), e.get("vt"), str(e.get("inputs"))))
    return sig


def run_slice(job: dict) -> dict:
    res: Dict[str, Any] = {"evaluations": 0, "counters": Counter(), "hashes": set(), "violations": [],
                           "samples": [], "aborted": 0}
    C = res["counters"]
    W, w = job["nworkers"], job["windex"]
    seed = job["seed"]
    from .. import findings
    KF = findings.load()
    stored = [0, 0]

    def viol(v, scn, sched):
        kf = findings.match(PROP, v, KF)
        if kf is not None:
            C["known_" + kf["id"]] += 1
            if stored[0] < 2:
                stored[0] += 1
                res["violations"].append({"v": v, "replay": {"scn": scn, "sched": sched}})
            return
        C["violation_" + v["kind"]] += 1
        C["unlisted_violations"] += 1
        if stored[1] < 10:
            stored[1] += 1
            res["violations"].append({"v": v, "replay": {"scn": scn, "sched": sched}})

    for i in range(w, job["n_cases"], W):
        rng = random.Random(H(seed, "c17", i))
        cls = ["instant", "slow", "events", "instant", "blocking"][i % 5]
        scn = mk_scn(rng, cls)
        sched = {"policy": "fifo", "atomic": True} if i % 3 else {"policy": "random", "seed": i}
        tr = run_case(scn, sched)
        res["evaluations"] += 1
        C["runs"] += 1
        C[cls + "_runs"] += 1
        if any(s["path"] for s in scn["sims"]):
            C["grouped_runs"] += 1
        C["factor_%g" % (scn["config"]["rt_factor"] * scn["config"]["time_resolution"])] += 1
        C["steps_paced"] += sum(1 for e in tr["events"] if e.get("op") == "call" and e.get("kind") == "step")
        for inj in scn.get("inject_events", []):
            if any(e.get("op") == "inject" and e["t"] == inj["t"] for e in tr["events"]):
                C["events_injected_future" if inj["t"] < scn["until"] else "events_injected_beyond_until"] += 1
        for v in judge(scn, tr):
            viol(v, scn, sched)
        res["hashes"].add(H(scn_hash(scn), order_hash(tr["events"])) % (1 << 52))
        # rt_strict: first report becomes RuntimeError, nothing else changes
        if cls == "slow" and any("too slow" in l["msg"] for l in tr["logs"]):
            first_i = next(l["i"] for l in tr["logs"] if "too slow" in l["msg"])
            scn_s = dict(scn, config=dict(scn["config"], rt_strict=True))
            trs = run_case(scn_s, sched)
            res["evaluations"] += 1
            C["strict_pairs"] += 1
            os_ = trs["outcome"]
            if not (os_["kind"] == "error" and os_.get("type") == "RuntimeError" and "too slow" in os_.get("msg", "")):
                viol({"kind": "rt_strict_did_not_raise_runtime_error", "outcome": os_}, scn_s, sched)
            else:
                n_before = len([e for e in trs["events"] if e.get("op") != "finalize"])
                a_sig = prefix_sig(tr, first_i)
                b_sig = prefix_sig(trs, first_i)
                if a_sig != b_sig:
                    viol({"kind": "rt_strict_changed_the_run_before_the_first_report",
                          "first_difference": next(((x, y) for x, y in zip(a_sig, b_sig) if x != y), "length")},
                         scn_s, sched)
                later = [e for e in trs["events"] if e["i"] >= first_i and e.get("op") == "call" and e.get("kind") == "step"]
                C["strict_steps_after_first_report"] += len(later)
        # set_event outside real-time mode is an error
        if cls == "events" and i % 8 == 2:
            scn_n = dict(scn, config={k: v for k, v in scn["config"].items() if k not in ("rt_factor",)})
            scn_n["inject_events"] = []
            scn_n["sims"] = [dict(s, beh=dict(s["beh"], set_events={"*": [-1]})) if s["sid"] == scn["sims"][0]["sid"] else s
                             for s in scn["sims"]]
            if (i // 8) % 2:
                # ... also for an event at or after the end
                big = scn["until"] + 1 + (i % 3)
                scn_n["sims"] = [dict(s_, beh=dict(s_["beh"], set_events={"*": [big]})) if s_["sid"] == scn["sims"][0]["sid"] else s_
                                 for s_ in scn_n["sims"]]
                C["set_event_without_rt_beyond_until"] += 1
            trn = run_case(scn_n, sched)
            res["evaluations"] += 1
            C["set_event_without_rt"] += 1
            if trn["outcome"]["kind"] == "ok":
                viol({"kind": "set_event_outside_real_time_mode_accepted"}, scn_n, sched)
        if len(res["samples"]) < 2 and i % 101 == 0:
            res["samples"].append({"class": cls, "f_seconds_per_step": scn["config"]["rt_factor"] * scn["config"]["time_resolution"],
                                   "sims": [f"{s['sid']}:{s['type']}@{tuple(s['path'])}" for s in scn["sims"]],
                                   "step_begins(virtual s)": [(e["sid"], e["time"], e["vt"]) for e in tr["events"]
                                                               if e.get("op") == "call" and e.get("kind") == "step"][:8],
                                   "too_slow_reports": sum(1 for l in tr["logs"] if "too slow" in l["msg"]),
                                   "injected": scn.get("inject_events")})
    res["hashes"] = list(res["hashes"])
    res["counters"] = dict(C)
    return res


def replay(rep: dict) -> List[dict]:
    r = rep["replay"]
    tr = run_case(r["scn"], dict(r["sched"]))
    out = judge(r["scn"], tr)
    v = rep["violation"]
    if v["kind"] == "set_event_outside_real_time_mode_accepted" and tr["outcome"]["kind"] == "ok":
        out.append(v)
    if v["kind"] == "rt_strict_did_not_raise_runtime_error" and not (
            tr["outcome"]["kind"] == "error" and tr["outcome"].get("type") == "RuntimeError"):
        out.append(v)
    return out


def decide(m, tier):
    c = m["counters"]
    reasons = []
    for k, n in (("instant_runs", 300), ("slow_runs", 150), ("strict_pairs", 50), ("events_injected_future", 100),
                 ("events_injected_beyond_until", 30), ("set_event_without_rt", 20), ("grouped_runs", 100)):
        if c.get(k, 0) < n:
            reasons.append(f"{k} < {n}")
    return ("inconclusive" if reasons else "held"), reasons


def evidence(m, tier, seed):
    return {"level": "exploration", "coverage": {
        "rule": "virtual clock (loop.time() and mosaik.scheduler.perf_counter are the same harness clock; step durations "
                "are virtual sleeps; timers fire exactly): generated scenarios (1-4 simulators, all types, with and "
                "without groups, plain/shifted connections), rt_factor in {0.125..4} x time_resolution in {0.5,1,2}; "
                "classes: instant simulators, slow steps (durations up to 5 s, awaiting), blocking steps (virtual time "
                "passes inside step() without the loop running, incl. a long very first step), external set_event(t) injected at "
                "non-boundary virtual instants for future t < until and t >= until; rt_strict re-run of every run "
                "that reported 'too slow'; set_event without rt_factor; distinct_nontrivial = distinct (scenario, "
                "global event order)",
        "exhaustive": False,
        "obligations": m["counters"].get("steps_paced", 0),
    }, "assumptions": ["behaviour on the real clock is outside the property as quantified", "dyadic factors keep the pacing arithmetic exact"]}
