"""Shared machinery for the engine-A (simlab) monitor checks C01 C02 C03 C05 C07 C10."""
from __future__ import annotations

import hashlib
import json
import time
from collections import Counter
from typing import Any, Callable, Dict, List, Optional

from .. import findings
from ..build import run_case
from ..gen import PROFILES, features, gen_scenario
from ..monitors import Analysis
from ..sims import H, canon

POLICY_CYCLE = [
    {"policy": "random"},
    {"policy": "starve"},
    {"policy": "pct", "d": 2},
    {"policy": "random", "pre_yields": 2},
    {"policy": "prio"},
    {"policy": "lifo"},
    {"policy": "random", "batch_p": 0.4},
    {"policy": "all"},
    {"policy": "pct", "d": 4, "pre_yields": 1},
    {"policy": "fifo"},
    {"policy": "fifo", "atomic": True},            # every reply synchronous: the test suite's own schedule
    {"policy": "random", "atomic_frac": 0.5},      # some simulators synchronous, the others in flight
    {"policy": "starve", "atomic_frac": 0.4},
]


def order_hash(events: List[dict]) -> int:
    h = hashlib.blake2b(digest_size=8)
    for e in events:
        if e.get("op") in ("call", "ret") and e.get("kind") in ("step", "get_data"):
            h.update(f"{e['op'][0]}{e['kind'][0]}{e['sid']}{e.get('time')}.{e.get('k')};".encode())
    return int.from_bytes(h.digest(), "big")


def scn_hash(scn: dict) -> int:
    d = {k: v for k, v in scn.items() if k != "gen"}
    return H(canon(d))


def compact_sample(scn: dict, tr: dict, a: Analysis, sched: dict) -> dict:
    order = []
    for e in tr["events"]:
        if e.get("op") == "call" and e.get("kind") == "step":
            order.append(f"{e['sid']}@{e['time']}.{e['k']}[")
        elif e.get("op") == "ret" and e.get("kind") in ("get_data",):
            order.append(f"{e['sid']}]")
        if len(order) >= 24:
            break
    return {
        "scenario": {"until": scn["until"],
                     "sims": [f"{s['sid']}:{s['type']}@{tuple(s.get('path', []))}" for s in scn["sims"]],
                     "conns": [a.cdesc(c) for c in scn.get("conns", [])],
                     "config": scn.get("config")},
        "policy": {k: v for k, v in sched.items() if k in ("policy", "pre_yields", "batch_p", "starved", "order", "d")},
        "outcome": tr["outcome"]["kind"],
        "events": len(tr["events"]),
        "max_sims_in_flight": tr["stats"]["max_inflight_sims"],
        "decisions": tr["stats"]["decisions"],
        "global_order_prefix": order,
    }


def run_slice_mon(job: dict, prop: str, obligations: Callable[[Counter], int],
                  post: Optional[Callable[[dict, dict, Analysis], List[dict]]] = None) -> dict:
    seed = job["seed"]
    n_cases = job["n_cases"]
    profiles: List[str] = job["profiles"]
    nvar = job["variants"]
    res: Dict[str, Any] = {"evaluations": 0, "counters": Counter(), "hashes": set(), "violations": [],
                           "samples": [], "aborted": 0}
    C = res["counters"]
    KF = findings.load()
    n_known_stored = 0
    n_unlisted_stored = 0
    t_end = time.time() + job.get("budget_s", 1e9)
    for i in range(job["windex"], n_cases, job["nworkers"]):
        if time.time() > t_end:
            C["cases_skipped_time_budget"] += 1
            continue
        pname = profiles[i % len(profiles)]
        prof = dict(PROFILES[pname])
        prof.update(job.get("profile_override", {}))
        scn = gen_scenario(H(seed, pname, i) % (1 << 48), prof)
        scn["gen"]["profile"] = pname
        sh = scn_hash(scn)
        f = features(scn)
        for v in range(nvar):
            sched = dict(POLICY_CYCLE[(i + v) % len(POLICY_CYCLE)])
            sched["seed"] = H(seed, i, v) % (1 << 31)
            cfgv = dict(scn["config"])
            if v % 2 == 1 and not job.get("keep_config"):
                cfgv["cache"] = not cfgv["cache"]
            if v % 4 >= 2 and not job.get("keep_config") and job.get("force_lazy") is None:
                cfgv["lazy"] = not cfgv["lazy"]
            if job.get("force_lazy") is not None:
                cfgv["lazy"] = job["force_lazy"]
            if job.get("rt_every") and (i + v) % job["rt_every"] == 1 and not any(
                    s_["beh"].get("agent") for s_ in scn["sims"]):
                # the same scenario in real-time mode (virtual clock, binary-exact factor): the ordering guarantees
                # are not allowed to depend on it
                cfgv["rt_factor"] = 0.015625
                C["runs_real_time_mode"] += 1
            scn_v = dict(scn)
            scn_v["config"] = cfgv
            tr = run_case(scn_v, sched)
            a = Analysis(scn_v, tr)
            res["evaluations"] += 1
            C["runs_profile_" + pname] += 1
            C["runs_policy_" + sched["policy"]] += 1
            C["runs_cache_" + ("on" if cfgv["cache"] else "off")] += 1
            C["runs_lazy_" + ("on" if cfgv["lazy"] else "off")] += 1
            C["runs_depth_%d" % f["depth"]] += 1
            for kk in f["kinds"]:
                C["runs_with_" + kk] += 1
            if f["sibling_groups"]:
                C["runs_with_sibling_groups"] += 1
            ok = tr["outcome"]["kind"]
            C["outcome_" + ok] += 1
            if ok == "connect_error":
                C["scenario_rejected_at_connect"] += 1
            if ok == "error" and tr["outcome"].get("type") == "ScenarioError":
                C["scenario_rejected_by_cycle_check"] += 1
            if ok != "ok":
                res["aborted"] += 1
            for k in ("steps", "substeps", "c01_consumer_steps", "c01_consumer_steps_feeder_was_inflight",
                      "c01_pairs_checked", "c10_pairs_checked", "c10_producer_steps",
                      "c10_producer_steps_consumer_finished_meanwhile", "c07_promises",
                      "c07_promises_nonempty_window", "c07_promises_with_other_sim_inflight",
                      "c07_steps_in_window", "trigger_demands", "trigger_while_dest_inflight",
                      "trigger_demands_beyond_until", "self_steps_beyond_until", "future_output_times",
                      "c03_steps_checked", "c03_slots_matched", "c03_persistent_slots", "c03_event_slots",
                      "c03_init_slots", "c03_collapsed", "c03_tolerated_none",
                      "c03_persistent_slots_value_announced_for_later_time", "label_crosscheck_ok",
                      "label_crosscheck_mismatch", "events"):
                if a.stats.get(k):
                    C[k] += a.stats[k]
            if tr["stats"]["max_inflight_sims"] >= 2:
                C["runs_with_2plus_sims_in_flight"] += 1
            C["max_sims_in_flight_%d" % min(tr["stats"]["max_inflight_sims"], 6)] += 1
            C["controller_decisions"] += tr["stats"]["decisions"]
            viol = list(a.viol.get(prop, []))
            if post is not None:
                viol.extend(post(scn_v, tr, a))
            nontrivial = tr["stats"]["max_inflight_sims"] >= 2 and obligations(a.stats) > 0
            if nontrivial:
                res["hashes"].add(H(sh, order_hash(tr["events"]), canon(cfgv)) % (1 << 52))
            if viol:
                C["runs_with_violation"] += 1
                rsched = dict(sched)
                rsched["orig_policy"] = sched["policy"]
                rsched["policy"] = "replay"
                rsched["schedule"] = tr["schedule"]
                stored = 0
                for vv in viol:
                    C["violation_" + vv["kind"]] += 1
                    kf = findings.match(prop, vv, KF)
                    if kf is not None:
                        C["known_" + kf["id"]] += 1
                        if n_known_stored < 2:
                            n_known_stored += 1
                            res["violations"].append({"v": dict(vv, profile=pname),
                                                      "replay": {"scn": scn_v, "sched": rsched}})
                    else:
                        C["unlisted_violations"] += 1
                        if n_unlisted_stored < job.get("max_viol", 12) and stored < 3:
                            stored += 1
                            n_unlisted_stored += 1
                            res["violations"].append({"v": dict(vv, profile=pname),
                                                      "replay": {"scn": scn_v, "sched": rsched}})
            elif len(res["samples"]) < 2 and nontrivial and i % 7 == 0:
                res["samples"].append(compact_sample(scn_v, tr, a, sched))
    # ---- bounded-exhaustive schedules: stateless DFS over every order in which in-flight replies can
    # complete at quiescent points, for small scenarios; every schedule goes through the same oracle ----
    n_dfs = job.get("dfs_cases", 0)
    for j in range(job["windex"], n_dfs, job["nworkers"]):
        pname = "tiny" if j % 2 else "tiny_flat"
        prof = dict(PROFILES[pname])
        scn = gen_scenario(H(seed, "dfs", pname, j) % (1 << 48), prof)
        scn["config"]["debug"] = False
        if job.get("force_lazy") is not None:
            scn["config"]["lazy"] = job["force_lazy"]
        sh = scn_hash(scn)
        prefix: List[int] = []
        n_sched = 0
        t_stop = time.time() + job.get("dfs_budget_s", 2.0)
        exhausted = False
        orders = set()
        while True:
            tr = run_case(scn, {"policy": "replay", "schedule": list(prefix)})
            a = Analysis(scn, tr)
            res["evaluations"] += 1
            n_sched += 1
            oh = order_hash(tr["events"])
            orders.add(oh)
            if tr["stats"]["max_inflight_sims"] >= 2 and obligations(a.stats) > 0:
                res["hashes"].add(H(sh, oh, "dfs") % (1 << 52))
            viol = list(a.viol.get(prop, []))
            if post is not None:
                viol.extend(post(scn, tr, a))
            for vv in viol:
                kf = findings.match(prop, vv, KF)
                if kf is not None:
                    C["known_" + kf["id"]] += 1
                    continue
                C["unlisted_violations"] += 1
                C["violation_" + vv["kind"]] += 1
                if n_unlisted_stored < job.get("max_viol", 12):
                    n_unlisted_stored += 1
                    res["violations"].append({"v": dict(vv, profile=pname, schedule="dfs"),
                                              "replay": {"scn": scn, "sched": {"policy": "replay",
                                                                               "schedule": list(tr["schedule"])}}})
            taken = [c if isinstance(c, int) else c[0] for c in tr["schedule"]]
            br = tr["branching"]
            q = len(taken) - 1
            while q >= 0 and taken[q] + 1 >= br[q]:
                q -= 1
            if q < 0:
                exhausted = True
                break
            prefix = taken[:q] + [taken[q] + 1]
            if n_sched >= job.get("dfs_cap", 300) or time.time() > t_stop:
                break
        C["dfs_scenarios"] += 1
        C["dfs_schedules"] += n_sched
        C["dfs_distinct_orders"] += len(orders)
        if exhausted:
            C["dfs_scenarios_exhausted"] += 1
    # ---- a sample of the same scenarios over real processes (engine B): same oracles over the
    # event list merged by the system-wide monotonic clock -----------------------------------
    n_remote = job.get("remote_cases", 0)
    if n_remote:
        from ..remotelab import merged_trace, run_remote
        for j in range(job["windex"], n_remote, job["nworkers"]):
            pname = profiles[j % len(profiles)]
            prof = dict(PROFILES[pname])
            prof["n_sims"] = (2, 4)
            scn = gen_scenario(H(seed, "remote", pname, j) % (1 << 48), prof)
            scn["config"]["debug"] = False
            if job.get("force_lazy") is not None:
                scn["config"]["lazy"] = job["force_lazy"]
            rt = run_remote(scn, max_sleep=0.003, sleep_seed=H(seed, j) % 1000)
            res["evaluations"] += 1
            C["remote_runs"] += 1
            if rt["outcome"]["kind"] == "watchdog":
                C["remote_watchdog_inconclusive"] += 1
                continue
            tr = merged_trace(rt)
            a = Analysis(scn, tr)
            C["remote_steps"] += a.stats.get("steps", 0)
            if tr["stats"]["max_inflight_sims"] >= 2:
                C["remote_runs_with_2plus_sims_in_flight"] += 1
            viol = list(a.viol.get(prop, []))
            if post is not None:
                viol.extend(post(scn, tr, a))
            for vv in viol:
                kf = findings.match(prop, vv, KF)
                if kf is not None:
                    C["known_" + kf["id"]] += 1
                    continue
                C["unlisted_violations"] += 1
                C["violation_" + vv["kind"]] += 1
                if n_unlisted_stored < job.get("max_viol", 12):
                    n_unlisted_stored += 1
                    res["violations"].append({"v": dict(vv, profile=pname, transport="remote"),
                                              "replay": {"scn": scn, "remote": True}})
    res["hashes"] = list(res["hashes"])
    res["counters"] = dict(C)
    return res


def replay_mon(rep: dict, prop: str, post=None) -> List[dict]:
    r = rep["replay"]
    if r.get("remote"):
        from ..remotelab import merged_trace, run_remote
        tr = merged_trace(run_remote(r["scn"], max_sleep=0.003))
    else:
        tr = run_case(r["scn"], dict(r["sched"]))
    a = Analysis(r["scn"], tr)
    viol = list(a.viol.get(prop, []))
    if post is not None:
        viol.extend(post(r["scn"], tr, a))
    return viol


def sizes(tier: str, scale: float, quick_cases: int, thorough_cases: int) -> int:
    n = quick_cases * 2 if tier == "quick" else thorough_cases * 4
    return max(16, int(n * scale))
