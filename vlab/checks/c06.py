"""C06 Cycle detection is exact -- real World.connect/run against a brute-force cycle enumerator."""
from __future__ import annotations

import itertools
import random
import re
from collections import Counter
from typing import Any, Dict, List, Tuple

from .. import findings
from ..build import run_case
from ..model import common, conn_resolves, simple_cycles, unresolved_cycles
from ..sims import H

PROP = "C06"
HEADLINE = ["graphs", "graphs_with_cycle", "expected_reject", "expected_accept", "rejected", "accepted",
            "named_cycles_checked", "exhaustive_2sim_graphs", "sampled_3sim_graphs", "sampled_big_graphs"]

PATHS = [(), (0,), (1,), (0, 0), (0, 1)]
MENU_CROSS = [(), ("plain",), ("shift",), ("weak",), ("async",), ("plain", "shift"), ("plain", "weak"), ("shift", "weak"),
              ("shift", "async"), ("async", "shift"), ("weak", "async"), ("shift+async",), ("weak+shift",), ("weak+shift", "plain"), ("plain", "weak+shift"),
              # the same parallel connections registered in the other order (min() over delays, overwrites)
              ("shift", "plain"), ("weak", "plain"), ("weak", "shift"), ("async", "weak")]
MENU_SELF = [(), ("shift",), ("weak",), ("plain",), ("weak+shift",)]


def plan(tier, seed, scale):
    q = tier == "quick"
    return {"n_cases": 1, "n3_sample": int((24000 if q else 400000) * scale), "big_sample": int((3000 if q else 400000) * scale),
            "n3_exhaustive": not q, "timeout_s": 900 if q else 10800}


def mk_scn(paths: List[Tuple[int, ...]], edges: Dict[Tuple[int, int], Tuple[str, ...]]) -> dict:
    n = len(paths)
    sims = []
    for i in range(n):
        sims.append({"sid": f"S{i}", "type": "event-based", "path": list(paths[i]), "entities": ["e0"],
                     "ins": {f"i{k}": "trigger" for k in range(3 * n + 2)},
                     "outs": {f"o{k}": "nonpersistent" for k in range(3 * n + 2)},
                     "beh": {"seed": i, "p_out": 0.0, "p_self": 0.0}, "initial_event": 0})
    conns = []
    port = Counter()
    for (u, v), kinds in sorted(edges.items()):
        for kind in kinds:
            c: Dict[str, Any] = {"src": f"S{u}", "se": "e0", "dst": f"S{v}", "de": "e0"}
            if kind == "async":
                c["async"] = True       # connect(src, dest, async_requests=True) without attribute pairs
            elif kind == "shift+async":
                c["async"] = True       # one connect() call: time-shifted data-flow + async_requests
                c["shift"] = 1
                c["sa"] = f"o{port[('o', u)]}"
                c["da"] = f"i{port[('i', v)]}"
            else:
                c["sa"] = f"o{port[('o', u)]}"
                c["da"] = f"i{port[('i', v)]}"
                if kind == "shift":
                    c["shift"] = 1
                elif kind == "weak":
                    c["weak"] = True
                elif kind == "weak+shift":
                    # both flags in one connect(): the time shift resolves any cycle, the weak flag needs a common group
                    c["weak"] = True
                    c["shift"] = 1
            port[("o", u)] += 1
            port[("i", v)] += 1
            conns.append(c)
    return {"until": 1, "sims": sims, "conns": conns, "config": {"cache": True, "lazy": True}}


def weak_ok(paths, u, v) -> bool:
    return common(tuple(paths[u]), tuple(paths[v])) >= 1


def has_cycle(scn) -> bool:
    succ: Dict[str, set] = {}
    for c in scn["conns"]:
        succ.setdefault(c["src"], set()).add(c["dst"])
    return bool(simple_cycles([s["sid"] for s in scn["sims"]], succ))


def check_graph(scn: dict, C: Counter, viol, again=None) -> None:
    C["graphs"] += 1
    cyc = has_cycle(scn)
    if cyc:
        C["graphs_with_cycle"] += 1
    bad = unresolved_cycles(scn)
    expect_reject = bool(bad)
    C["expected_reject" if expect_reject else "expected_accept"] += 1
    tr = run_case(scn, {"policy": "fifo", "atomic": True, "run_again_after_scenario_error": (C["graphs"] % 3 == 0) if again is None else again})
    o = tr["outcome"]
    stepped = any(e.get("op") == "call" and e.get("kind") == "step" for e in tr["events"])
    desc = {"paths": {s["sid"]: s["path"] for s in scn["sims"]},
            "conns": [(c["src"], c["dst"], ("shift+" if c.get("shift") and c.get("async") else "") + ("async" if c.get("async") else ("weak+shift" if c.get("weak") and c.get("shift") else ("weak" if c.get("weak") else ("shift" if c.get("shift") else "plain")))))
                      for c in scn["conns"]]}
    if o["kind"] == "connect_error":
        C["connect_error_skipped"] += 1
        return
    if o["kind"] == "error" and o.get("type") == "ScenarioError":
        C["rejected"] += 1
        if stepped:
            viol("rejected_after_stepping", scenario=desc, msg=o.get("msg"))
        if not expect_reject:
            viol("false_rejection", scenario=desc, msg=o.get("msg"))
            return
        if "second_outcome" in tr:
            # run() called again on the same (still cyclic) world: rejected again, nothing stepped
            C["rejected_scenarios_run_a_second_time"] += 1
            o2 = tr["second_outcome"]
            stepped2 = any(e.get("op") == "call" and e.get("kind") == "step" and e["i"] >= tr["second_run_events_from"]
                           for e in tr["events"])
            if o2.get("type") != "ScenarioError" or stepped2:
                viol("second_run_on_rejected_scenario_not_rejected", scenario=desc, second_outcome=o2, stepped=stepped2)
                return
        sids = re.findall(r"sid='([^']+)'", o.get("msg", ""))
        C["named_cycles_checked"] += 1
        ok = len(sids) >= 2 and sids[0] == sids[-1]
        if ok:
            path = {s["sid"]: tuple(s.get("path", [])) for s in scn["sims"]}
            cyc_sims = sids[:-1]
            for a, b in zip(sids[:-1], sids[1:]):
                par = [c for c in scn["conns"] if c["src"] == a and c["dst"] == b]
                if not par:
                    ok = False
                    break
                if all(conn_resolves(c, path, cyc_sims) for c in par):
                    ok = False
                    break
        if not ok:
            viol("named_cycle_not_a_real_unresolved_cycle", scenario=desc, named=sids, msg=o.get("msg"))
        return
    if o["kind"] == "ok":
        C["accepted"] += 1
        if expect_reject:
            viol("unresolved_cycle_accepted", scenario=desc, cycle=bad[0])
        return
    # any other failure: neither a clean rejection nor an accepted run
    viol("crash_instead_of_accept" if not expect_reject else "crash_instead_of_reject", scenario=desc,
         type=o.get("type"), msg=o.get("msg"), where=o.get("where"))


def run_slice(job: dict) -> dict:
    res: Dict[str, Any] = {"evaluations": 0, "counters": Counter(), "hashes": set(), "violations": [],
                           "samples": [], "aborted": 0}
    C = res["counters"]
    KF = findings.load()
    W, w = job["nworkers"], job["windex"]
    stored = [0, 0]

    def make_viol(scn):
        def viol(kind, **kw):
            kw["kind"] = kind
            kf = findings.match(PROP, kw, KF)
            if kf is not None:
                C["known_" + kf["id"]] += 1
                if stored[0] < 2:
                    stored[0] += 1
                    res["violations"].append({"v": kw, "replay": {"scn": scn}})
            else:
                C["unlisted_violations"] += 1
                C["violation_" + kind] += 1
                if stored[1] < 10:
                    stored[1] += 1
                    res["violations"].append({"v": kw, "replay": {"scn": scn}})
        return viol

    def do(scn):
        check_graph(scn, C, make_viol(scn))
        res["evaluations"] += 1
        if has_cycle(scn):
            res["hashes"].add(H(scn["sims"][0]["path"], [(s["path"]) for s in scn["sims"]],
                                [(c["src"], c["dst"], c.get("shift"), c.get("weak"), c.get("async")) for c in scn["conns"]]) % (1 << 52))
        if len(res["samples"]) < 2 and C["graphs"] % 211 == 0:
            res["samples"].append({"paths": [s["path"] for s in scn["sims"]],
                                   "conns": [(c["src"], c["dst"], "async" if c.get("async") else ("weak" if c.get("weak") else ("shift" if c.get("shift") else "plain"))) for c in scn["conns"]],
                                   "oracle_unresolved_cycles": unresolved_cycles(scn)})

    # ---- all graphs on 1 and 2 simulators ------------------------------------------
    k = 0
    for n in (1, 2):
        pairs = [(u, v) for u in range(n) for v in range(n)]
        for paths in itertools.product(PATHS, repeat=n):
            menus = [MENU_SELF if u == v else MENU_CROSS for (u, v) in pairs]
            for choice in itertools.product(*menus):
                if any(any("weak" in k_ for k_ in ks) and not weak_ok(paths, u, v) for (u, v), ks in zip(pairs, choice)):
                    continue
                k += 1
                if k % W != w:
                    continue
                edges = {p: ks for p, ks in zip(pairs, choice) if ks}
                do(mk_scn(list(paths), edges))
                C["exhaustive_2sim_graphs"] += 1
    # ---- 3 simulators: exhaustive (thorough) or sampled ------------------------------
    rng = random.Random(H(job["seed"], "c06", w))
    n = 3
    pairs3 = [(u, v) for u in range(n) for v in range(n) if u != v]
    menu3 = [(), ("plain",), ("shift",), ("weak",)]
    if job["n3_exhaustive"]:
        k = 0
        for paths in itertools.product(PATHS, repeat=n):
            for choice in itertools.product(menu3, repeat=len(pairs3)):
                if any(any("weak" in k_ for k_ in ks) and not weak_ok(paths, u, v) for (u, v), ks in zip(pairs3, choice)):
                    continue
                k += 1
                if k % W != w:
                    continue
                do(mk_scn(list(paths), {p: ks for p, ks in zip(pairs3, choice) if ks}))
                C["exhaustive_3sim_graphs"] += 1
    for _ in range(job["n3_sample"] // W):
        paths = [rng.choice(PATHS) for _ in range(n)]
        edges = {}
        for (u, v) in [(u, v) for u in range(n) for v in range(n)]:
            menu = MENU_SELF if u == v else MENU_CROSS
            ks = rng.choice(menu) if rng.random() < (0.25 if u == v else 0.6) else ()
            if any("weak" in k_ for k_ in ks) and not weak_ok(paths, u, v):
                ks = tuple(x for x in ks if "weak" not in x)
            if ks:
                edges[(u, v)] = ks
        do(mk_scn(paths, edges))
        C["sampled_3sim_graphs"] += 1
    # ---- 4-6 simulators, depth 3, sampled ---------------------------------------------
    PATHS3 = PATHS + [(0, 0, 0), (0, 0, 1), (1, 0)]
    for _ in range(job["big_sample"] // W):
        n = rng.randint(4, 6)
        paths = [rng.choice(PATHS3) for _ in range(n)]
        edges = {}
        for _e in range(rng.randint(n, 2 * n + 2)):
            u, v = rng.randrange(n), rng.randrange(n)
            menu = MENU_SELF if u == v else MENU_CROSS
            ks = rng.choice(menu[1:])
            if any("weak" in k_ for k_ in ks) and not weak_ok(paths, u, v):
                ks = tuple(x for x in ks if "weak" not in x)
            if ks:
                edges[(u, v)] = ks
        do(mk_scn(paths, edges))
        C["sampled_big_graphs"] += 1
    res["hashes"] = list(res["hashes"])
    res["counters"] = dict(C)
    return res


def replay(rep: dict) -> List[dict]:
    out: List[dict] = []
    C: Counter = Counter()

    def viol(kind, **kw):
        kw["kind"] = kind
        out.append(kw)
    check_graph(rep["replay"]["scn"], C, viol, again=True)
    return out


def decide(m, tier):
    c = m["counters"]
    reasons = []
    if c.get("expected_reject", 0) < 1000 or c.get("expected_accept", 0) < 1000:
        reasons.append("fewer than 1000 graphs on one side of the oracle")
    if c.get("named_cycles_checked", 0) < 500:
        reasons.append("fewer than 500 named cycles checked")
    if c.get("connect_error_skipped", 0) > 0.1 * max(1, c.get("graphs", 0)):
        reasons.append("more than 10% of the graphs were rejected at connect()")
    return ("inconclusive" if reasons else "held"), reasons


def evidence(m, tier, seed):
    c = m["counters"]
    return {"level": "exploration", "coverage": {
        "rule": "graphs = connection multigraphs over event-based simulators placed in a depth<=2 group tree (5 paths; "
                "8 for the big sample), connection kinds plain/shifted/weak/async incl. parallel connections and "
                "self-connections; ALL graphs on 1-2 simulators, 3 simulators sampled (exhaustive over "
                "{none,plain,shift,weak}^6 x 125 placements in the thorough tier), 4-6 simulators sampled; each is "
                "built with the real World.start/connect and run(until=1); distinct_nontrivial = distinct graphs "
                "containing at least one directed cycle",
        "exhaustive": bool(c.get("exhaustive_3sim_graphs")),
        "obligations": c.get("graphs", 0),
    }, "assumptions": ["oracle: brute-force enumeration of simple cycles; a hop resolves only if all its parallel "
                       "connections resolve; weak resolves iff all simulators of the cycle are in the closest common "
                       "group of its ends (groups by path)"]}
