"""C05 Completion: run() returns normally for accepted scenarios with compliant simulators."""
from ._enga import run_slice_mon, replay_mon, sizes

PROP = "C05"
HEADLINE = ["outcome_ok", "outcome_error", "scenario_rejected_by_cycle_check",
            "trigger_demands_beyond_until", "self_steps_beyond_until", "runs_with_2plus_sims_in_flight"]


def plan(tier, seed, scale):
    return {"n_cases": sizes(tier, scale, 3200, 80000), "variants": 4,
            "profiles": ["par", "core", "par_flat", "events", "deep", "big", "chain", "flat", "wild", "wild_flat"],
            "remote_cases": int((32 if tier == "quick" else 1600) * scale),
            "dfs_cases": int((96 if tier == "quick" else 1600) * scale), "dfs_cap": 300 if tier == "quick" else 20000,
            "dfs_budget_s": 1.5 if tier == "quick" else 20.0,
            "timeout_s": 600 if tier == "quick" else 7200}


def obligations(st):
    return 1


def post(scn, tr, a):
    """Annotates a deadlock witness with the facts the known-findings predicate
    'async_substep_deadlock' needs (never decides anything itself)."""
    for v in a.viol["C05"]:
        if v.get("type") != "Deadlock":
            continue
        from ..model import common
        path = {s["sid"]: tuple(s.get("path", [])) for s in scn["sims"]}
        # groups in which sub-time is generated: the closest common group of the two ends of a weak connection
        weak_groups = set()
        for c2 in scn["conns"]:
            if c2.get("weak"):
                k2 = common(path[c2["src"]], path[c2["dst"]])
                if k2 >= 1:
                    weak_groups.add(path[c2["src"]][:k2])
        # the async source can perform sub-steps (it lives inside such a group) and shares a group with the agent
        qual = [c for c in scn["conns"] if c.get("async") and common(path[c["src"]], path[c["dst"]]) >= 1
                and any(path[c["src"]][:len(g)] == g for g in weak_groups)]
        v["async_source_with_substeps_in_shared_group"] = bool(qual)
        if qual:
            # counterfactual at the scenario level: the same scenario without the async_requests flags,
            # same schedule policy and seed, completes
            from ..build import run_case
            # (the agents keep their behaviour - same random draws - but do not issue the requests, which
            # would be refused without the flag)
            scn2 = dict(scn, conns=[{k: x for k, x in c.items() if k != "async"} for c in scn["conns"]],
                        sims=[dict(s_, beh=dict(s_["beh"], agent=dict(s_["beh"]["agent"], dry=True)))
                              if s_["beh"].get("agent") else s_ for s_ in scn["sims"]])
            sched2 = {k: x for k, x in tr["sched"].items() if k not in ("schedule", "orig_policy")}
            if sched2.get("policy") == "replay":       # a replayed witness: the policy it was found under
                sched2["policy"] = tr["sched"].get("orig_policy", "random")
            tr2 = run_case(scn2, sched2)
            o2 = tr2["outcome"]
            # "completes": returns, or is stopped by the same-time loop guard (C09 runs with small bounds) -
            # anything but another hang
            v["completes_without_async_flags"] = o2["kind"] == "ok" or (
                o2.get("type") == "SimulationError" and "sub-step more than" in (o2.get("msg") or ""))
    return []


def run_slice(job):
    return run_slice_mon(job, PROP, obligations, post=post)


def replay(rep):
    return replay_mon(rep, PROP, post=post)


def decide(m, tier):
    c = m["counters"]
    reasons = []
    if c.get("runs_with_2plus_sims_in_flight", 0) < 0.3 * max(1, m["evaluations"]):
        reasons.append("fewer than 30% of runs had two simulators in flight at once")
    if c.get("trigger_demands_beyond_until", 0) < 100 or c.get("self_steps_beyond_until", 0) < 100:
        reasons.append("fewer than 100 events announced for times at or after the end")
    if c.get("scenario_rejected_by_cycle_check", 0) > 0.2 * max(1, m["evaluations"]):
        reasons.append("more than 20% of generated scenarios were rejected by the cycle check")
    return ("inconclusive" if reasons else "held"), reasons


def evidence(m, tier, seed):
    return {"level": "exploration", "coverage": {
        "rule": "case = generated scenario (biased to parallel connections with different delays, group "
                "re-entry, events beyond until) x schedule policy x cache/lazy variant; the run must return "
                "normally: exact deadlock detection (loop idle, nothing in flight, no timer), livelock budget "
                "(loop passes without an API event), any exception; distinct = hash(scenario, config, global "
                "event order); non-trivial = two simulators in flight at once",
        "obligations": m["evaluations"],
    }, "assumptions": ["simulators are API-compliant and always answer (scripted behaviours inside the envelope of DESIGN 2.1)",
                       "bounded progress instead of unbounded 'eventually': decision budget and spin budget per run"]}
