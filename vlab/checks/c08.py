"""C08 Order-consistent delay arithmetic -- contracts on the real TieredInterval/TieredTime
against a semantic model: a delay is the function  t -> (t[:c] + d[:c]) ++ d[c:]  on time tuples."""
from __future__ import annotations

import itertools
import random
from collections import Counter
from typing import Any, Dict, List, Optional, Tuple

from ..sims import H

PROP = "C08"
HEADLINE = ["intervals", "pairs_compared", "pairs_incomparable_allowed", "lt_implies_pointwise_checked",
            "triples_transitivity", "assoc_checked", "action_checked", "monotone_checked"]


def plan(tier, seed, scale):
    q = tier == "quick"
    # departure times must range beyond the largest tier value (t_i + s vs. o flips at t_i = o - s + 1)
    return {"maxlen": 3, "maxval": 2 if q else 3, "tmax": 3 if q else 4, "n_cases": 1,
            "triple_sample": int((150000 if q else 3000000) * scale),
            "rand_shapes": 0 if q else 1, "timeout_s": 600 if q else 7200,
            "mindelay_scenarios": int((3000 if q else 120000) * scale)}


def model_apply(t: Tuple[int, ...], p: int, c: int, tiers: Tuple[int, ...]) -> Tuple[int, ...]:
    assert len(t) == p
    return tuple(x + y for x, y in zip(t[:c], tiers[:c])) + tuple(tiers[c:])


def shapes(maxlen: int):
    for p in range(1, maxlen + 1):
        for c in range(1, p + 1):
            for n in range(c, maxlen + 1):
                yield (p, c, n)


def all_intervals(maxlen: int, maxval: int):
    for (p, c, n) in shapes(maxlen):
        for tiers in itertools.product(range(maxval + 1), repeat=n):
            yield (p, c, tiers)


def cmp_real(TI, a, b):
    """Returns (lt, eq, gt) or 'incomparable' / ('error', text)."""
    A = TI(*a[2], cutoff=a[1], pre_length=a[0])
    B = TI(*b[2], cutoff=b[1], pre_length=b[0])
    try:
        return (bool(A < B), bool(A == B), bool(A > B))
    except AssertionError as e:
        if "incomparable" in str(e):
            return "incomparable"
        return ("error", f"AssertionError: {e}")
    except Exception as e:  # noqa: BLE001
        return ("error", f"{type(e).__name__}: {e}")


def model_rel(a, b, tmax: int):
    """Pointwise order over all departure times in [0,tmax]^p: returns (a_le_b, b_le_a)."""
    p = a[0]
    le = ge = True
    for t in itertools.product(range(tmax + 1), repeat=p):
        x = model_apply(t, *a)
        y = model_apply(t, *b)
        if x > y:
            le = False
        if x < y:
            ge = False
        if not le and not ge:
            break
    return le, ge



def min_delay_violations(scn: dict, C: Counter) -> List[dict]:
    """'Minimum delay' computations rely on the order: after the real setup of a generated scenario, the delay
    cached for every (triggering ancestor -> simulator) pair must be a lower bound of the delay accumulated hop by
    hop along EVERY triggering path between the two (real additions), for every departure time of a small box,
    and it must be attained by one of the paths."""
    import itertools as it
    from mosaik.tiered_time import TieredTime as TT
    from ..build import run_case
    out: List[dict] = []
    scn = dict(scn, until=1)
    tr = run_case(scn, {"policy": "fifo", "atomic": True}, want_world=True)
    world = tr.pop("_world", None)
    o = tr["outcome"]
    if world is None or o["kind"] not in ("ok",):
        C["mindelay_scenarios_not_set_up"] += 1       # rejected cycles, KF-incomparable-delays, ...
        return out
    C["mindelay_scenarios"] += 1
    sims = world.sims
    edges: Dict[Any, List[tuple]] = {}
    for s_ in sims.values():
        for port_triggers in s_.triggers.values():
            for dest, delay in port_triggers:
                edges.setdefault(s_, []).append((dest, delay))
    for dst in sims.values():
        for src, cached in dst.triggering_ancestors.items():
            # all walks src -> dst that repeat no simulator (dst == src: simple cycles)
            paths: List[Any] = []
            stack = [(src, None, (src,))]
            while stack and len(paths) < 200:
                node, acc, seen = stack.pop()
                for nxt, d in edges.get(node, []):
                    try:
                        acc2 = d if acc is None else acc + d
                    except Exception as e:  # noqa: BLE001
                        out.append({"kind": "delay_addition_raised", "error": f"{type(e).__name__}: {e}"[:200]})
                        continue
                    if nxt is dst:
                        paths.append((acc2, seen + (nxt,)))
                    elif nxt not in seen:
                        stack.append((nxt, acc2, seen + (nxt,)))
            if not paths:
                out.append({"kind": "cached_ancestor_without_triggering_path", "src": src.sid, "dst": dst.sid,
                            "cached": repr(cached)})
                continue
            C["mindelay_pairs"] += 1
            C["mindelay_paths"] += len(paths)
            if len(paths) >= 2:
                C["mindelay_pairs_with_several_paths"] += 1
            plen = cached.pre_length
            attained = False
            for acc, seen in paths:
                same = True
                for t in it.product(range(3), repeat=plen):
                    T = TT(*t)
                    a, b = T + cached, T + acc
                    C["mindelay_arrivals_compared"] += 1
                    if b < a:
                        out.append({"kind": "cached_minimum_delay_is_not_a_lower_bound", "src": src.sid, "dst": dst.sid,
                                    "cached": repr(cached), "path": [x.sid for x in seen], "path_delay": repr(acc),
                                    "departure": list(t), "arrival_by_cached": repr(a), "arrival_along_path": repr(b)})
                        return out
                    if a != b:
                        same = False
                attained = attained or same
            if not attained and len(paths) < 200:
                out.append({"kind": "cached_minimum_delay_is_attained_by_no_path", "src": src.sid, "dst": dst.sid,
                            "cached": repr(cached), "paths": [repr(p[0]) for p in paths][:6]})
    # the same for the per-pair input delay (what a simulator waits for): a lower bound of the delay of every
    # data connection between the pair, attained by one of them (or by an async_requests connection)
    per_pair: Dict[tuple, List[Any]] = {}
    for s_ in sims.values():
        for (src_sim, delay) in s_.pulled_inputs:
            per_pair.setdefault((src_sim, s_), []).append(delay)
        for port, dests in s_.output_to_push.items():
            for dest_sim, delay, _dp in dests:
                per_pair.setdefault((s_, dest_sim), []).append(delay)
    async_pairs = {(c["src"], c["dst"]) for c in scn["conns"] if c.get("async")}
    for (src, dst), delays in per_pair.items():
        cached = dst.input_delays.get(src)
        if cached is None:
            out.append({"kind": "no_input_delay_for_connected_pair", "src": src.sid, "dst": dst.sid})
            continue
        C["inputdelay_pairs"] += 1
        if len(set(map(repr, delays))) >= 2:
            C["inputdelay_pairs_with_different_connection_delays"] += 1
        attained = (src.sid, dst.sid) in async_pairs
        for d in delays:
            same = True
            for t in it.product(range(3), repeat=cached.pre_length):
                T = TT(*t)
                a, b = T + cached, T + d
                if b < a:
                    out.append({"kind": "input_delay_is_not_a_lower_bound", "src": src.sid, "dst": dst.sid,
                                "cached": repr(cached), "connection_delay": repr(d), "departure": list(t)})
                    return out
                if a != b:
                    same = False
            attained = attained or same
        if not attained:
            out.append({"kind": "input_delay_is_attained_by_no_connection", "src": src.sid, "dst": dst.sid,
                        "cached": repr(cached), "connection_delays": sorted(set(map(repr, delays)))})
    try:
        world.shutdown()
    except Exception:  # noqa: BLE001
        pass
    return out


def run_slice(job: dict) -> dict:
    from mosaik.tiered_time import TieredInterval as TI, TieredTime as TT
    res: Dict[str, Any] = {"evaluations": 0, "counters": Counter(), "hashes": set(), "violations": [],
                           "samples": [], "aborted": 0}
    C = res["counters"]
    maxlen, maxval, tmax = job["maxlen"], job["maxval"], job["tmax"]
    W, w = job["nworkers"], job["windex"]
    ivs = list(all_intervals(maxlen, maxval))
    C["intervals"] = len(ivs) if w == 0 else 0
    groups: Dict[Tuple[int, int], List[tuple]] = {}
    for iv in ivs:
        groups.setdefault((iv[0], len(iv[2])), []).append(iv)

    def viol(kind, **kw):
        C["violation_" + kind] += 1
        if len(res["violations"]) < 10:
            kw["kind"] = kind
            res["violations"].append({"v": kw, "replay": {"case": kw}})

    def fmt(iv):
        return {"pre_length": iv[0], "cutoff": iv[1], "tiers": list(iv[2])}

    # ---- pairs: trichotomy, agreement with the pointwise model -------------------
    relcache: Dict[Tuple[tuple, tuple], Any] = {}
    idx = 0
    for key, g in sorted(groups.items()):
        for a in g:
            for b in g:
                idx += 1
                if idx % W != w:
                    continue
                r = cmp_real(TI, a, b)
                res["evaluations"] += 1
                C["pairs_compared"] += 1
                le, ge = model_rel(a, b, tmax)
                if r == "incomparable":
                    if le or ge:
                        viol("incomparable_but_pointwise_ordered", a=fmt(a), b=fmt(b),
                             model="a<=b" if le else "b<=a")
                    else:
                        C["pairs_incomparable_allowed"] += 1
                    continue
                if isinstance(r, tuple) and r[0] == "error":
                    viol("comparison_raised", a=fmt(a), b=fmt(b), error=r[1])
                    continue
                lt, eq, gt = r
                res["hashes"].add(H(a, b) % (1 << 52))
                rb = cmp_real(TI, b, a)
                if isinstance(rb, tuple) and rb[0] != "error" and (rb[2] != lt or rb[0] != gt or rb[1] != eq):
                    viol("not_antisymmetric", a=fmt(a), b=fmt(b), a_vs_b={"lt": lt, "eq": eq, "gt": gt},
                         b_vs_a={"lt": rb[0], "eq": rb[1], "gt": rb[2]})
                    continue
                if rb == "incomparable":
                    viol("comparable_one_way_only", a=fmt(a), b=fmt(b))
                    continue
                if (lt, eq, gt).count(True) != 1:
                    viol("trichotomy", a=fmt(a), b=fmt(b), lt=lt, eq=eq, gt=gt,
                         model="a<=b" if le and not ge else ("b<=a" if ge and not le else ("equal" if le else "unordered")))
                    continue
                # the derived operators agree with <, == (update_min uses <=, progress.py uses >=)
                A = TI(*a[2], cutoff=a[1], pre_length=a[0])
                B = TI(*b[2], cutoff=b[1], pre_length=b[0])
                try:
                    derived = (bool(A <= B), bool(A >= B), bool(A != B))
                except Exception as e:  # noqa: BLE001
                    viol("comparison_raised", a=fmt(a), b=fmt(b), error=f"derived operator: {type(e).__name__}: {e}")
                    continue
                C["derived_operators_checked"] += 1
                if derived != (lt or eq, gt or eq, not eq):
                    viol("derived_operator_inconsistent", a=fmt(a), b=fmt(b), lt=lt, eq=eq, gt=gt,
                         le_ge_ne=list(derived))
                    continue
                C["lt_implies_pointwise_checked"] += 1
                if lt and not le:
                    viol("smaller_delay_later_arrival", a=fmt(a), b=fmt(b), claimed="a<b",
                         witness=_witness(a, b, tmax))
                if gt and not ge:
                    viol("smaller_delay_later_arrival", a=fmt(b), b=fmt(a), claimed="a<b (as b>a)",
                         witness=_witness(b, a, tmax))
                if eq and not (le and ge):
                    viol("equal_but_different_functions", a=fmt(a), b=fmt(b))
                if (lt or gt) and le and ge:
                    viol("strict_but_same_function", a=fmt(a), b=fmt(b))
                if len(res["samples"]) < 2 and idx % 997 == 0:
                    res["samples"].append({"a": fmt(a), "b": fmt(b), "real": {"lt": lt, "eq": eq, "gt": gt},
                                           "model": {"a_le_b": le, "b_le_a": ge}})
    # ---- transitivity on sampled/all triples ---------------------------------------
    rng = random.Random(H(job["seed"], "c08", w))
    glist = sorted(groups.items())
    total_triples = sum(len(g) ** 3 for _, g in glist)
    n_tr = job["triple_sample"] // W
    exhaustive_tr = total_triples <= job["triple_sample"]
    def triples():
        if exhaustive_tr:
            k = 0
            for _, g in glist:
                for a in g:
                    for b in g:
                        for c in g:
                            k += 1
                            if k % W == w:
                                yield a, b, c
        else:
            weights = [len(g) ** 3 for _, g in glist]
            for _ in range(n_tr):
                g = rng.choices(glist, weights)[0][1]
                yield rng.choice(g), rng.choice(g), rng.choice(g)

    def lt_real(a, b):
        k = (a, b)
        if k not in relcache:
            relcache[k] = cmp_real(TI, a, b)
        return relcache[k]

    for a, b, c in triples():
        r1, r2 = lt_real(a, b), lt_real(b, c)
        if not (isinstance(r1, tuple) and isinstance(r2, tuple) and r1[0] is True and r2[0] is True):
            continue
        r3 = lt_real(a, c)
        C["triples_transitivity"] += 1
        res["evaluations"] += 1
        if r3 == "incomparable":
            C["triples_ac_incomparable"] += 1
            le, ge = model_rel(a, c, tmax)
            if le or ge:
                viol("incomparable_but_pointwise_ordered", a=fmt(a), b=fmt(c), model="a<=b" if le else "b<=a")
            continue
        if not (isinstance(r3, tuple) and r3[0] is True):
            viol("not_transitive", a=fmt(a), b=fmt(b), c=fmt(c), a_lt_c=r3)
    C["transitivity_exhaustive"] = int(exhaustive_tr) if w == 0 else 0
    # ---- addition: associativity, action law, monotonicity -------------------------
    k = 0
    for a in ivs:
        for b in ivs:
            if len(a[2]) != b[0]:
                continue
            k += 1
            if k % W != w:
                continue
            A = TI(*a[2], cutoff=a[1], pre_length=a[0])
            B = TI(*b[2], cutoff=b[1], pre_length=b[0])
            try:
                AB = A + B
            except Exception as e:  # noqa: BLE001
                viol("addition_raised", a=fmt(a), b=fmt(b), error=f"{type(e).__name__}: {e}")
                continue
            # action law against the model, for every departure time
            for t in itertools.product(range(tmax + 1), repeat=a[0]):
                T = TT(*t)
                try:
                    lhs = ((T + A) + B).tiers
                    rhs = (T + AB).tiers
                except Exception as e:  # noqa: BLE001
                    viol("time_addition_raised", a=fmt(a), b=fmt(b), t=list(t), error=f"{type(e).__name__}: {e}")
                    break
                mod = model_apply(model_apply(t, *a), *b)
                C["action_checked"] += 1
                if not (lhs == rhs == mod):
                    viol("action_law", a=fmt(a), b=fmt(b), t=list(t), seq=list(lhs), combined=list(rhs), model=list(mod))
                    break
                # adding a delay never moves time backwards (on the shared prefix)
                ta = (T + A).tiers
                C["monotone_checked"] += 1
                c = a[1]
                if ta[:c] < t[:c]:
                    viol("time_moves_backwards", a=fmt(a), t=list(t), result=list(ta))
                    break
            res["evaluations"] += 1
            # associativity with every third delay that chains (sampled by stride)
            for cc in ivs[(k * 7) % 11::11]:
                if len(b[2]) != cc[0]:
                    continue
                Cc = TI(*cc[2], cutoff=cc[1], pre_length=cc[0])
                try:
                    l = (A + B) + Cc
                    r = A + (B + Cc)
                except Exception as e:  # noqa: BLE001
                    viol("addition_raised", a=fmt(a), b=fmt(b), c=fmt(cc), error=f"{type(e).__name__}: {e}")
                    continue
                C["assoc_checked"] += 1
                if not (l == r):
                    viol("not_associative", a=fmt(a), b=fmt(b), c=fmt(cc), left=repr(l), right=repr(r))
    # ---- TieredTime itself: the six comparison operators agree with the lexicographic order of the tiers ----
    if w == 0:
        for n in range(1, maxlen + 1):
            pts = list(itertools.product(range(maxval + 1), repeat=n))
            for x in pts:
                for y in pts:
                    X, Y = TT(*x), TT(*y)
                    C["time_pairs_compared"] += 1
                    got = (X < Y, X <= Y, X == Y, X != Y, X > Y, X >= Y)
                    exp = (x < y, x <= y, x == y, x != y, x > y, x >= y)
                    if got != exp:
                        viol("tiered_time_order", x=list(x), y=list(y), got=list(got), expected=list(exp))
                    if (X == Y) != (hash(X) == hash(Y)) and X == Y:
                        viol("tiered_time_hash", x=list(x), y=list(y))
            res["evaluations"] += len(pts) ** 2
    # ---- minimum-delay computations of the real setup on generated scenarios --------
    from ..gen import PROFILES, gen_scenario
    profs = ["core", "deep", "sibling", "wild", "big", "events"]
    for i in range(w, job.get("mindelay_scenarios", 0), W):
        pn = profs[i % len(profs)]
        scn = gen_scenario(H(job["seed"], "c08md", pn, i) % (1 << 48), PROFILES[pn])
        vs = min_delay_violations(scn, C)
        res["evaluations"] += 1
        for v in vs[:2]:
            C["violation_" + v["kind"]] += 1
            if len(res["violations"]) < 10:
                res["violations"].append({"v": v, "replay": {"mindelay_scn": scn}})
    res["hashes"] = list(res["hashes"])
    res["counters"] = dict(C)
    return res


def _witness(a, b, tmax):
    for t in itertools.product(range(tmax + 1), repeat=a[0]):
        x, y = model_apply(t, *a), model_apply(t, *b)
        if x > y:
            return {"t": list(t), "t_plus_a": list(x), "t_plus_b": list(y)}
    return None


def replay(rep: dict) -> List[dict]:
    from mosaik.tiered_time import TieredInterval as TI
    v = rep["violation"]
    out = []
    if (rep.get("replay") or {}).get("mindelay_scn"):
        return min_delay_violations(rep["replay"]["mindelay_scn"], Counter())
    if "a" in v and "b" in v and v["kind"] in ("trichotomy", "smaller_delay_later_arrival", "not_antisymmetric",
                                               "incomparable_but_pointwise_ordered", "derived_operator_inconsistent"):
        a = (v["a"]["pre_length"], v["a"]["cutoff"], tuple(v["a"]["tiers"]))
        b = (v["b"]["pre_length"], v["b"]["cutoff"], tuple(v["b"]["tiers"]))
        r = cmp_real(TI, a, b)
        le, ge = model_rel(a, b, 5)
        if r == "incomparable":
            if le or ge:
                out.append(dict(v))
        elif isinstance(r, tuple) and r[0] != "error":
            lt, eq, gt = r
            A = TI(*a[2], cutoff=a[1], pre_length=a[0])
            B = TI(*b[2], cutoff=b[1], pre_length=b[0])
            rb = cmp_real(TI, b, a)
            if (lt, eq, gt).count(True) != 1 or (lt and not le) or (gt and not ge) or \
                    (bool(A <= B), bool(A >= B), bool(A != B)) != (lt or eq, gt or eq, not eq) or \
                    (isinstance(rb, tuple) and rb[0] != "error" and (rb[2] != lt or rb[0] != gt or rb[1] != eq)):
                out.append(dict(v))
    return out


def decide(m, tier):
    c = m["counters"]
    reasons = []
    if c.get("pairs_compared", 0) < 10000:
        reasons.append("fewer than 10000 pairs compared")
    if c.get("mindelay_pairs_with_several_paths", 0) < 500:
        reasons.append("fewer than 500 (ancestor, simulator) pairs with several triggering paths in generated scenarios")
    if c.get("triples_transitivity", 0) < 10000:
        reasons.append("fewer than 10000 transitivity triples with a<b<c")
    if c.get("action_checked", 0) < 10000 or c.get("assoc_checked", 0) < 10000:
        reasons.append("addition laws evaluated fewer than 10000 times")
    return ("inconclusive" if reasons else "held"), reasons


def evidence(m, tier, seed):
    c = m["counters"]
    return {"level": "exploration", "coverage": {
        "rule": "all TieredInterval shapes (pre_length, cutoff, length <= 3) x all tier values in 0..maxval; every ordered "
                "pair of equal shape is compared with the real operators and with the pointwise order of the "
                "semantic model over all departure times in [0,maxval+1]^pre_length; <=, >=, != agree with <, ==, >; (counters mindelay_*) the "
                "minimum delays that the real setup caches for generated scenarios (triggering ancestors) are a lower bound of the "
                "hop-by-hop arrival along every triggering path for all departure times in [0,2]^n and are attained by a path, and (counters inputdelay_*) the "
                "per-pair input delay is a lower bound of, and attained by, the delays of the pair's connections; all chaining pairs for the action "
                "law; distinct_nontrivial = distinct ordered pairs the implementation accepted as comparable",
        "exhaustive": True,
        "transitivity_exhaustive": bool(c.get("transitivity_exhaustive")),
        "obligations": c.get("pairs_compared", 0) + c.get("triples_transitivity", 0) + c.get("action_checked", 0),
    }, "assumptions": ["tier values and departure times bounded as stated; 'incomparable' assertion accepted only "
                       "where the model's pointwise order is not total"]}
