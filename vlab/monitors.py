"""Oracles over a recorded trace (engine A).

One pass over the global event list; every property decides only from its own
findings.  Labels are model labels (vlab.model), derived from the scenario and
the observed replies -- never read from mosaik (the optional ``lab`` field is a
cross-check that is only counted).
"""
from __future__ import annotations

import json
from collections import Counter
from typing import Any, Dict, List, Optional, Tuple

from .model import Scn, Label

INIT = ("<init>", ())


def canon(o):
    return json.dumps(o, sort_keys=True, separators=(",", ":"), default=repr)


class Prod:
    __slots__ = ("port", "value", "outlabel", "order", "step", "i")

    def __init__(self, port, value, outlabel, order, step, i=-1):
        self.port = port
        self.value = value
        self.outlabel = outlabel
        self.order = order
        self.step = step   # (sid, label)
        self.i = i         # event index of the get_data reply


class Analysis:
    def __init__(self, scn: dict, trace: dict, lazy: Optional[bool] = None):
        self.m = Scn(scn)
        self.scn = scn
        self.trace = trace
        cfg = scn.get("config", {})
        self.lazy = bool(cfg.get("lazy", True)) if lazy is None else lazy
        self.viol: Dict[str, List[dict]] = {p: [] for p in
                                            ("C01", "C02", "C03", "C05", "C07", "C10", "C16")}
        self.stats: Counter = Counter()
        self.steps: Dict[str, List[dict]] = {sid: [] for sid in self.m.sims}
        self.seq: Dict[str, List[Tuple[int, int, str]]] = {sid: [] for sid in self.m.sims}
        self.run()

    # ------------------------------------------------------------------
    def add(self, prop: str, kind: str, **kw):
        kw["kind"] = kind
        self.viol[prop].append(kw)

    def run(self):
        m = self.m
        until = m.until
        D: Dict[str, Dict[Label, dict]] = {sid: {} for sid in m.sims}
        inflight: Dict[str, Optional[Label]] = {sid: None for sid in m.sims}
        begun_max: Dict[str, Optional[Label]] = {sid: None for sid in m.sims}
        since_prev_begin_inflight: Dict[str, set] = {sid: set() for sid in m.sims}
        promises: Dict[str, List[dict]] = {sid: [] for sid in m.sims}
        prods: Dict[Tuple[str, str, str], List[Prod]] = {}
        consumed: Dict[int, set] = {}
        pending_set: Dict[str, Dict[str, Dict[str, Dict[str, Any]]]] = {sid: {} for sid in m.sims}
        delivered_at: Dict[Tuple[int, int], Label] = {}   # (conn idx, prod order) -> label of consumer step
        order_ctr = 0
        has_out = {sid: bool(m.connected_outputs(sid)) for sid in m.sims}
        self.D = D
        self.prods = prods
        self.delivered_at = delivered_at

        def demand(sid: str, label: Label, cause):
            d = D[sid].get(label)
            if d is None:
                d = D[sid][label] = {"causes": set(), "exec": None, "done": False, "i": len(self.trace["events"])}
            d["causes"].add(cause)
            return d

        for sid, s in m.sims.items():
            if s["type"] in ("time-based", "hybrid"):
                demand(sid, m.zero(sid, 0), INIT)
            if s.get("initial_event") is not None:
                # set_initial_event *replaces* the schedule
                D[sid].clear()
                demand(sid, m.zero(sid, s["initial_event"]), INIT)

        conn_idx = {id(c): i for i, c in enumerate(m.conns)}
        # producers feeding sid (ordering relevant): data conns and async pairs
        feeders: Dict[str, List[dict]] = {sid: [] for sid in m.sims}
        consumers: Dict[str, List[dict]] = {sid: [] for sid in m.sims}
        for c in m.conns:
            if c["src"] != c["dst"]:
                feeders[c["dst"]].append(c)
                consumers[c["src"]].append(c)

        events = self.trace["events"]
        for ev in events:
            op = ev.get("op")
            kind = ev.get("kind")
            sid = ev.get("sid")
            if op == "call" and kind == "step":
                t = ev["time"]
                cands = [lab for lab, d in D[sid].items() if d["exec"] is None]
                L: Optional[Label] = None
                if not cands:
                    self.add("C02", "spurious_step", sid=sid, time=t, i=ev["i"],
                             note="no demanded step is outstanding")
                    L = m.zero(sid, t)
                    demand(sid, L, ("<spurious>", ()))
                else:
                    L0 = min(cands)
                    if L0[0] == t:
                        L = L0
                    else:
                        same = sorted(lab for lab in cands if lab[0] == t)
                        if same:
                            L = same[0]
                            self.add("C02", "out_of_order", sid=sid, time=t, i=ev["i"],
                                     expected=list(L0), took=list(L))
                        else:
                            L = m.zero(sid, t)
                            self.add("C02", "undemanded_time", sid=sid, time=t, i=ev["i"],
                                     expected=list(L0))
                            demand(sid, L, ("<spurious>", ()))
                if not (0 <= t < until):
                    self.add("C02", "out_of_range", sid=sid, time=t, until=until, i=ev["i"])
                if inflight[sid] is not None:
                    self.add("C02", "overlapping_steps", sid=sid, time=t, i=ev["i"])
                prev = begun_max[sid]
                if prev is not None and not (L > prev):
                    self.add("C02", "not_increasing", sid=sid, label=list(L), prev=list(prev), i=ev["i"])
                D[sid][L]["exec"] = ev["i"]
                lab = ev.get("lab")
                if lab is not None:
                    if tuple(lab) == L:
                        self.stats["label_crosscheck_ok"] += 1
                    else:
                        self.stats["label_crosscheck_mismatch"] += 1
                        self.stats_sample("label_mismatch", dict(sid=sid, model=list(L), mosaik=lab, i=ev["i"]))
                self.stats["steps"] += 1
                if len(L) > 1 and any(L[1:]):
                    self.stats["substeps"] += 1

                # ---- C01 (a): no feeder in flight with due <= L -------------
                had_inflight_feeder = False
                for c in feeders[sid]:
                    P = c["src"]
                    Lp = inflight[P]
                    if Lp is not None:
                        if m.due_order(c, Lp) <= L:
                            self.add("C01", "feeder_in_flight", consumer=sid, label=list(L), producer=P,
                                     producer_label=list(Lp), due=list(m.due_order(c, Lp)),
                                     conn=self.cdesc(c), i=ev["i"])
                    if P in since_prev_begin_inflight[sid] or Lp is not None:
                        had_inflight_feeder = True
                if feeders[sid]:
                    self.stats["c01_consumer_steps"] += 1
                    if had_inflight_feeder:
                        self.stats["c01_consumer_steps_feeder_was_inflight"] += 1
                since_prev_begin_inflight[sid] = set()
                # ---- C01 (b): producer never begins a step due <= consumer's begun ---
                for c in consumers[sid]:
                    Cs = c["dst"]
                    bm = begun_max[Cs]
                    if bm is not None and m.due_order(c, L) <= bm:
                        self.add("C01", "producer_steps_into_past", producer=sid, label=list(L),
                                 consumer=Cs, consumer_begun=list(bm), due=list(m.due_order(c, L)),
                                 conn=self.cdesc(c), i=ev["i"])
                    self.stats["c01_pairs_checked"] += 1
                # ---- C10 lazy: no consumer step earlier than L outstanding -----
                if self.lazy:
                    waited = False
                    seenC = set()
                    for c in consumers[sid]:
                        Cs = c["dst"]
                        if Cs in seenC:
                            continue
                        seenC.add(Cs)
                        # "a step earlier than t": main time, the only time visible at the API
                        # (the label-level reading contradicts C01+C05 across groups, DESIGN 3/C10)
                        for lab2, d in D[Cs].items():
                            if lab2[0] >= until:
                                continue
                            if lab2[0] < L[0]:
                                if not d["done"]:
                                    self.add("C10", "producer_runs_ahead", producer=sid, label=list(L),
                                             consumer=Cs, outstanding=list(lab2),
                                             state="in_flight" if d["exec"] is not None else "not_started",
                                             i=ev["i"])
                                elif d.get("done_i", -1) > self.prev_done_i(sid):
                                    waited = True
                        self.stats["c10_pairs_checked"] += 1
                    if consumers[sid]:
                        self.stats["c10_producer_steps"] += 1
                        if waited:
                            self.stats["c10_producer_steps_consumer_finished_meanwhile"] += 1
                # ---- C07 ---------------------------------------------------
                mx = ev.get("max_advance")
                if mx is not None:
                    if mx > until:
                        self.add("C07", "exceeds_until", sid=sid, time=t, max_advance=mx, until=until, i=ev["i"])
                    if not m.has_connected_trigger_input(sid) and mx != until:
                        self.add("C07", "not_until_without_triggers", sid=sid, time=t, max_advance=mx,
                                 until=until, i=ev["i"])
                    for pr in promises[sid]:
                        if pr["t"] < t <= pr["m"]:
                            self.stats["c07_steps_in_window"] += 1
                            bad = self.external_chain(sid, L, pr["L"])
                            if bad is not None:
                                self.add("C07", "promise_broken", sid=sid, promise_step=list(pr["L"]),
                                         max_advance=pr["m"], step=list(L), external_chain=bad, i=ev["i"],
                                         promise_i=pr["i"])
                    anc_inflight = [P for P in m.sims if P != sid and inflight[P] is not None]
                    promises[sid].append({"t": t, "m": mx, "L": L, "i": ev["i"]})
                    self.stats["c07_promises"] += 1
                    if mx > t:
                        self.stats["c07_promises_nonempty_window"] += 1
                    if m.has_connected_trigger_input(sid) and anc_inflight:
                        self.stats["c07_promises_with_other_sim_inflight"] += 1
                # ---- C16: A (source of an async_requests connection) must not begin a step later
                # than t while an agent's step at t is unfinished -----------------------------------
                for c in consumers[sid]:
                    if c.get("async"):
                        Lb = inflight[c["dst"]]
                        self.stats["c16_order_checks"] += 1
                        prev_done = max((d.get("done_i", -1) for d in D[sid].values() if d["done"]), default=-1)
                        ag_done = max((d.get("done_i", -1) for d in D[c["dst"]].values() if d["done"]), default=-1)
                        if ag_done > prev_done >= 0:
                            # the agent finished a step after our previous step: the wait was real
                            self.stats["c16_order_checks_agent_finished_meanwhile"] += 1
                        if Lb is not None:
                            self.stats["c16_order_checks_agent_inflight"] += 1
                            if Lb < m.adapt(sid, c["dst"], L):
                                self.add("C16", "controlled_sim_overtakes_agent", sim=sid, label=list(L),
                                         agent=c["dst"], agent_label=list(Lb), i=ev["i"])
                # ---- C03 ---------------------------------------------------
                self.check_inputs(ev, sid, L, prods, consumed, pending_set, delivered_at, conn_idx)
                inflight[sid] = L
                begun_max[sid] = L if prev is None or L > prev else prev
                for other in m.sims:
                    if other != sid:
                        since_prev_begin_inflight[other].add(sid)
                self.steps[sid].append({"L": L, "i": ev["i"], "time": t, "k": ev.get("k"),
                                        "inputs": ev["inputs"], "max_advance": mx})
                self.seq[sid].append((t, ev.get("k", 0), canon(ev["inputs"])))
                self._cur = getattr(self, "_cur", {})
                self._cur[sid] = L
            elif op == "ret" and kind == "step":
                L = inflight[sid]
                nxt = ev.get("next")
                if L is not None and isinstance(nxt, int) and not isinstance(nxt, bool):
                    if nxt < until and nxt > L[0]:
                        demand(sid, m.zero(sid, nxt), (sid, L))
                    elif nxt >= until:
                        self.stats["self_steps_beyond_until"] += 1
                if L is not None and not has_out[sid]:
                    D[sid][L]["done"] = True
                    D[sid][L]["done_i"] = ev["i"]
                    inflight[sid] = None
            elif op == "ret" and kind == "get_data":
                L = inflight[sid]
                if L is None:
                    # get_data outside a step (world.get_data) -- ignore
                    continue
                data = ev.get("data", {})
                t = L[0]
                otime = data.get("time", t)
                if otime == t:
                    outlabel = L
                else:
                    outlabel = m.zero(sid, otime)
                    self.stats["future_output_times"] += 1
                for eid, attrs in data.items():
                    if eid == "time" or not isinstance(attrs, dict):
                        continue
                    for attr, val in attrs.items():
                        p = Prod((sid, eid, attr), val, outlabel, order_ctr, (sid, L), ev["i"])
                        order_ctr += 1
                        prods.setdefault((sid, eid, attr), []).append(p)
                        for c in m.by_src.get(sid, []):
                            if not m.has_data(c) or c["se"] != eid or c["sa"] != attr:
                                continue
                            if m.is_trigger(c["dst"], c["da"], c["de"]):
                                due = m.due(c, outlabel)
                                if due[0] < until:
                                    dd = demand(c["dst"], due, (sid, L))
                                    if dd["exec"] is not None and len(dd["causes"]) >= 1 and dd["exec"] < ev["i"]:
                                        # demanded again after it was executed: only fine if it is
                                        # the very step in flight/finished at that label (dedup)
                                        self.stats["demand_for_executed_label"] += 1
                                        bm = begun_max[c["dst"]]
                                        if bm is not None and due <= bm:
                                            self.add("C02", "demand_in_the_past", sid=c["dst"], label=list(due),
                                                     by=sid, by_label=list(L), consumer_begun=list(bm), i=ev["i"])
                                    self.stats["trigger_demands"] += 1
                                    if inflight[c["dst"]] is not None:
                                        self.stats["trigger_while_dest_inflight"] += 1
                                else:
                                    self.stats["trigger_demands_beyond_until"] += 1
                D[sid][L]["done"] = True
                D[sid][L]["done_i"] = ev["i"]
                inflight[sid] = None
            elif op == "async" and kind == "set_data":
                for src_full, dests in ev["data"].items():
                    for dest_full, attrs in dests.items():
                        dsid, deid = dest_full.split(".", 1)
                        for attr, val in attrs.items():
                            slot = pending_set.setdefault(dsid, {}).setdefault(deid, {}).setdefault(attr, {})
                            if src_full in slot:
                                self.stats["set_data_collapsed"] += 1
                            slot[src_full] = val
                            self.stats["set_data_values"] += 1
        # ---- end of run ---------------------------------------------------
        self.outcome = self.trace["outcome"]
        if self.outcome["kind"] == "ok":
            for sid in m.sims:
                for lab, d in D[sid].items():
                    if lab[0] < until and d["exec"] is None:
                        self.add("C02", "lost_step", sid=sid, label=list(lab),
                                 causes=[self.cause_desc(c) for c in sorted(d["causes"], key=repr)][:4])
                    if lab[0] >= until and d["exec"] is not None:
                        self.add("C02", "step_at_or_after_until", sid=sid, label=list(lab))
                if inflight[sid] is not None:
                    self.add("C02", "step_unfinished_at_return", sid=sid, label=list(inflight[sid]))
        else:
            o = self.outcome
            if o["kind"] == "error" and o.get("type") == "ScenarioError":
                # rejected by the cycle check: outside C05 ("every scenario accepted by ..."), C06's subject
                self.stats["rejected_by_cycle_check"] += 1
            elif o["kind"] == "error":
                self.add("C05", "run_failed", type=o.get("type"), msg=o.get("msg"), where=o.get("where"))
        self.stats["events"] = len(events)

    # ------------------------------------------------------------------
    def prev_done_i(self, sid):
        st = self.steps[sid]
        return st[-1]["i"] if st else -1

    def stats_sample(self, key, val):
        s = self.__dict__.setdefault("samples", {})
        lst = s.setdefault(key, [])
        if len(lst) < 3:
            lst.append(val)

    def cdesc(self, c):
        d = f"{c['src']}.{c.get('se')}.{c.get('sa')}->{c['dst']}.{c.get('de')}.{c.get('da')}"
        if c.get("shift"):
            d += f" shift={c['shift']}"
        if c.get("weak"):
            d += " weak"
        if c.get("async"):
            d += " async"
        return d

    def cause_desc(self, c):
        return f"{c[0]}@{list(c[1])}"

    def external_chain(self, sid: str, L: Label, Lx: Label):
        """Return a cause chain from a root to (sid, L) that avoids steps of
        ``sid`` with label >= Lx (the promising step), or None."""
        D = self.D
        memo: Dict[Tuple[str, Label], Any] = {}

        def avoid(node, depth=0):
            s, lab = node
            if node == INIT or s.startswith("<"):
                return [self.cause_desc(node)]
            if s == sid and lab >= Lx:
                return None
            if node in memo:
                return memo[node]
            memo[node] = None  # cycle guard
            d = D[s].get(lab)
            res = None
            if d is not None:
                for c in sorted(d["causes"], key=repr):
                    r = avoid(c, depth + 1)
                    if r is not None:
                        res = r + [self.cause_desc(node)]
                        break
            memo[node] = res
            return res

        d = D[sid].get(L)
        if d is None:
            return None
        for c in sorted(d["causes"], key=repr):
            r = avoid(c)
            if r is not None:
                return r + [self.cause_desc((sid, L))]
        return None

    # ------------------------------------------------------------------
    def check_inputs(self, ev, sid, L, prods, consumed, pending_set, delivered_at, conn_idx):
        m = self.m
        expected: Dict[str, Dict[str, Dict[str, Any]]] = {}
        tol_none: List[Tuple[str, str, str]] = []
        meta: Dict[Tuple[str, str, str], dict] = {}
        ps = pending_set.get(sid) or {}
        for deid, attrs in ps.items():
            for attr, srcs in attrs.items():
                for src_full, val in srcs.items():
                    expected.setdefault(deid, {}).setdefault(attr, {})[src_full] = val
                    meta[(deid, attr, src_full)] = {"via": "set_data"}
                    self.stats["set_data_expected"] += 1
        pending_set[sid] = {}
        for c in m.by_dst.get(sid, []):
            if not m.has_data(c):
                continue
            ci = conn_idx[id(c)]
            P = c["src"]
            slot = (c["de"], c["da"], f"{P}.{c['se']}")
            plist = prods.get((P, c["se"], c["sa"]), [])
            if m.is_persistent(P, c["sa"], c["se"]):
                best = None
                for p in plist:
                    due = m.due(c, p.outlabel)
                    if due <= L:
                        key = (due, p.order)
                        if best is None or key > best[0]:
                            best = (key, p)
                if best is not None:
                    expected.setdefault(slot[0], {}).setdefault(slot[1], {})[slot[2]] = best[1].value
                    meta[slot] = {"via": "persistent", "conn": ci, "prod": best[1]}
                    self.stats["c03_persistent_slots"] += 1
                    if best[1].outlabel[0] > best[1].step[1][0]:
                        self.stats["c03_persistent_slots_value_announced_for_later_time"] += 1
                elif "init" in c:
                    expected.setdefault(slot[0], {}).setdefault(slot[1], {})[slot[2]] = c["init"]
                    meta[slot] = {"via": "init", "conn": ci}
                    self.stats["c03_init_slots"] += 1
                else:
                    tol_none.append(slot)
                    meta[slot] = {"via": "none", "conn": ci}
            else:
                cs = consumed.setdefault(ci, set())
                best = None
                n = 0
                for p in plist:
                    if p.order in cs:
                        continue
                    due = m.due(c, p.outlabel)
                    if due <= L:
                        n += 1
                        cs.add(p.order)
                        delivered_at[(ci, p.order)] = L
                        key = (due, p.order)
                        if best is None or key > best[0]:
                            best = (key, p)
                if best is not None:
                    expected.setdefault(slot[0], {}).setdefault(slot[1], {})[slot[2]] = best[1].value
                    meta[slot] = {"via": "event", "conn": ci, "prod": best[1]}
                    self.stats["c03_event_slots"] += 1
                    if n > 1:
                        self.stats["c03_collapsed"] += n - 1
                else:
                    meta[slot] = {"via": "event-none", "conn": ci}
        observed = ev["inputs"]
        self.stats["c03_steps_checked"] += 1
        seen = self.__dict__.setdefault("seen", {})
        diffs = []
        slots = set()
        for de, attrs in expected.items():
            for da, srcs in attrs.items():
                for sf in srcs:
                    slots.add((de, da, sf))
        for de, attrs in (observed or {}).items():
            for da, srcs in (attrs or {}).items():
                for sf in (srcs or {}):
                    slots.add((de, da, sf))
        MISSING = "<absent>"
        for slot in sorted(slots):
            de, da, sf = slot
            e = expected.get(de, {}).get(da, {}).get(sf, MISSING)
            o = (observed or {}).get(de, {}).get(da, {}).get(sf, MISSING)
            if e == o:
                if e is not MISSING:
                    self.stats["c03_slots_matched"] += 1
                continue
            if slot in tol_none and (o is None or o is MISSING):
                self.stats["c03_tolerated_none"] += 1
                continue
            diffs.append(self.classify_diff(sid, L, slot, e, o, meta.get(slot), prods, delivered_at))
        for de, attrs in (observed or {}).items():
            for da, srcs in (attrs or {}).items():
                for sf, val in (srcs or {}).items():
                    if isinstance(val, str):
                        seen.setdefault((sid, de, da, sf, val), L)
        # structural: empty attr dicts etc. are not part of the property; only slot values are.
        if diffs:
            self.add("C03", "inputs_differ", sid=sid, label=list(L), i=ev["i"], diffs=diffs)

    def classify_diff(self, sid, L, slot, e, o, meta, prods, delivered_at):
        m = self.m
        MISSING = "<absent>"
        d: Dict[str, Any] = {"slot": list(slot), "expected": e, "observed": o}
        # find the production of the observed value (unique values)
        src_sid, src_eid = slot[2].split(".", 1)
        conn = None
        for c in m.by_dst.get(sid, []):
            if m.has_data(c) and c["de"] == slot[0] and c["da"] == slot[1] and c["src"] == src_sid and c["se"] == src_eid:
                conn = c
                break
        d["conn"] = self.cdesc(conn) if conn else None
        cls = "other"
        obs_prod = None
        if o is not MISSING and isinstance(o, str):
            for port, plist in prods.items():
                for p in plist:
                    if p.value == o:
                        obs_prod = p
                        break
                if obs_prod:
                    break
        if o is MISSING:
            cls = "missing"
        elif obs_prod is None:
            if conn is not None and "init" in conn and o == conn["init"]:
                cls = "stale_initial_data"
            elif o is None:
                cls = "none_instead_of_value"
            else:
                cls = "invented_or_not_yet_produced"
        else:
            if conn is None or obs_prod.port != (conn["src"], conn["se"], conn["sa"]):
                cls = "misattributed"
            else:
                due = m.due(conn, obs_prod.outlabel)
                d["observed_due"] = list(due)
                if due > L:
                    cls = "not_yet_due"
                elif e is MISSING:
                    cls = "repeated_or_duplicated"
                else:
                    cls = "stale"
        d["class"] = cls
        # expected side: due label of the expected value
        exp_due = None
        if meta and meta.get("prod") is not None and conn is not None:
            exp_due = m.due(conn, meta["prod"].outlabel)
            d["expected_due"] = list(exp_due)
        # ---- mechanism tag (for the known-findings file; a fact about the witness) ----
        # "subtime_early": the data path delivered a value at a step of the consumer whose
        # sub-time is earlier than the value's due sub-time *at the same main time*.
        #  A: the observed value itself is such an early value;
        #  B: the expected value is absent here because it was handed out at an earlier step
        #     of this consumer, at the same main time, before it was due.
        seen = self.__dict__.get("seen", {})
        early_obs = (cls == "not_yet_due" and d.get("observed_due") is not None
                     and d["observed_due"][0] == L[0])
        early_exp = False
        if exp_due is not None and meta.get("prod") is not None:
            pe = meta["prod"]
            for st in self.steps[sid]:
                # an earlier step of this consumer, same main time, earlier sub-time than
                # the value's due label, begun after the value had been produced
                if st["L"][0] == exp_due[0] and st["L"] < exp_due and st["i"] > pe.i:
                    early_exp = True
                    break
        if early_obs:
            d["mech"] = "subtime_early"
        elif o is MISSING and early_exp:
            d["mech"] = "subtime_early"
        else:
            d["mech"] = None
        return d
