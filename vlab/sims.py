"""Scripted, recording simulators for the lab.

``ScriptedSim`` is a public ``mosaik_api_v3.Simulator``.  Everything about it
comes from the ``spec`` init parameter (JSON), so the same class runs
in-process (engine A, replies controlled by ``vlab.loop.Controller``) and as a
remote process (engine B, real sockets, real sleeps).

Behaviour is a deterministic function of what the simulator has observed:
``H(seed, sid, time, k, canonical(inputs))`` with ``k`` the ordinal of the step
among the steps at the same ``time``.  Every produced value is unique
(``sid/eid/attr@time#k``) so that a value seen in some ``inputs`` identifies the
write it came from.
"""
from __future__ import annotations

import copy
import hashlib
import json
import os
import random
import time as _time
from typing import Any, Dict, List, Optional

import mosaik_api_v3


class Recorder:
    """One global, totally ordered event list (in-process runs)."""

    def __init__(self):
        self.events: List[dict] = []
        self.ctl = None            # vlab.loop.Controller or None (atomic mode)
        self.lat_rng: Optional[random.Random] = None
        self.max_pre_yields = 0
        self.world = None          # optional, for cross-checking labels
        self.file = None           # remote mode: JSONL file
        self.hooks: Dict[str, Any] = {}
        self.clock = None          # virtual clock (C17)
        self.atomic_sims = set()   # simulators that answer synchronously (never yield to the loop)
        self.instances: Dict[str, Any] = {}

    def ev(self, **kw):
        kw["i"] = len(self.events)
        if self.clock is not None:
            kw["vt"] = self.clock()
        self.events.append(kw)
        if self.ctl is not None:
            self.ctl.boundary()
        return kw


REC = Recorder()


def set_recorder(rec: Recorder):
    global REC
    REC = rec


def canon(obj: Any) -> str:
    return json.dumps(obj, sort_keys=True, separators=(",", ":"), default=repr)


def H(*parts: Any) -> int:
    h = hashlib.blake2b(canon(parts).encode(), digest_size=8).digest()
    return int.from_bytes(h, "big")


def make_meta(spec: dict) -> dict:
    typ = spec["type"]
    ins = spec.get("ins", {})      # attr -> "trigger" | "nontrigger"
    outs = spec.get("outs", {})    # attr -> "persistent" | "nonpersistent"
    attrs = list(ins) + [a for a in outs if a not in ins]
    model: Dict[str, Any] = {"public": True, "params": [], "attrs": attrs}
    if spec.get("any_inputs"):
        model["any_inputs"] = True
    if typ == "hybrid":
        model["trigger"] = [a for a, k in ins.items() if k == "trigger"]
        model["non-persistent"] = [a for a, k in outs.items() if k == "nonpersistent"]
    if "meta_override" in spec:
        model.update(spec["meta_override"])
    if "model_desc" in spec:          # C12: mirror a complete model description
        model = dict(spec["model_desc"])
    models = {"M": model}
    if spec.get("ins2") is not None or spec.get("outs2") is not None:
        # a second model "N" of the same simulator: same attribute names, other kinds (hybrid only)
        ins2, outs2 = spec.get("ins2", ins), spec.get("outs2", outs)
        attrs2 = list(ins2) + [a for a in outs2 if a not in ins2]
        m2: Dict[str, Any] = {"public": True, "params": [], "attrs": attrs2}
        if spec.get("any_inputs"):
            m2["any_inputs"] = True
        m2["trigger"] = [a for a, k in ins2.items() if k == "trigger"]
        m2["non-persistent"] = [a for a, k in outs2.items() if k == "nonpersistent"]
        models["N"] = m2
    meta: Dict[str, Any] = {
        "api_version": spec.get("api_version", "3.0"),
        "type": typ,
        "models": models,
    }
    if spec.get("set_events"):
        meta["set_events"] = True
    return meta


class ScriptedSim(mosaik_api_v3.Simulator):
    def __init__(self):
        super().__init__({"api_version": "3.0", "type": "time-based", "models": {}})
        self.spec: dict = {}
        self.sid = ""
        self.k_time = None
        self.k = 0
        self.nstep = 0
        self.nreq = 0
        self.pending: Dict[str, Any] = {}
        self.last_time = None

    # ---- mosaik API --------------------------------------------------------
    def init(self, sid, time_resolution=1.0, spec=None, **kw):
        self.sid = sid
        self.spec = spec or {}
        self.time_resolution = time_resolution
        self.meta = make_meta(self.spec)
        self.beh = self.spec.get("beh", {})
        self.seed = self.beh.get("seed", 0)
        self.until_hint = self.spec.get("until")
        self.remote = bool(self.spec.get("remote"))
        if self.remote:
            self._log = open(self.spec["remote"]["log"], "a", buffering=1)
            self._rng = random.Random(self.spec["remote"].get("sleep_seed", 0))
        self._rec(op="init", sid=sid, time_resolution=time_resolution, pid=os.getpid())
        if not self.remote:
            REC.instances[sid] = self
        if self.spec.get("meta_is_a_customised_copy"):
            # init() returns a per-instance description while self.meta stays a bare class-level template
            # (attrs only): what init() RETURNS is the simulator's description
            returned = self.meta
            self.meta = copy.deepcopy(returned)
            for m_ in self.meta["models"].values():
                for key in ("trigger", "non-trigger", "persistent", "non-persistent", "any_inputs"):
                    m_.pop(key, None)
                m_.setdefault("attrs", [])
            return returned
        return self.meta

    def create(self, num, model, **params):
        em = self.spec.get("ent_model", {})
        ents = [e for e in self.spec.get("entities", ["e0"]) if em.get(e, "M") == model]
        done = self.__dict__.setdefault("_created_by_model", {})
        start = done.get(model, 0)
        out = [{"eid": e, "type": model} for e in ents[start:start + num]]
        done[model] = start + num
        return out

    def setup_done(self):
        self._rec(op="call", kind="setup_done", sid=self.sid)
        self._fault("setup_done")
        if self.beh.get("setup_dur") and not self.remote:
            import asyncio
            yield asyncio.sleep(self.beh["setup_dur"])     # a setup_done that takes (virtual) time
        yield from self._latency("setup_done")
        self._fault_late("setup_done")
        self._rec(op="ret", kind="setup_done", sid=self.sid)
        return None

    def step(self, time, inputs, max_advance=None):
        if self.k_time == time:
            self.k += 1
        else:
            self.k_time, self.k = time, 0
        k = self.k
        lab = self._mosaik_label()
        ev = self._rec(op="call", kind="step", sid=self.sid, time=time, k=k,
                       inputs=copy.deepcopy(inputs), max_advance=max_advance, lab=lab,
                       n=self.nstep)
        self.nstep += 1
        f_ = self.spec.get("fault")
        if f_ and f_.get("mode") == "crash" and f_.get("delay") and not self.remote \
                and f_.get("at_request") == getattr(self, "_nreq_seen", 0):
            import asyncio
            yield asyncio.sleep(f_["delay"])      # fail a little later, while other requests are in flight
        self._fault("step")
        beh = self.beh
        dep = canon(inputs) if beh.get("amplify", True) else ""
        h = H(self.seed, self.sid, time, k, dep)
        rng = random.Random(h)
        typ = self.spec["type"]

        # --- async requests (C16): agents call set_data/get_data in step ----
        for act in self._async_actions(time, k, rng):
            if act[0] == "set_data":
                self._rec(op="async", kind="set_data", sid=self.sid, time=time, k=k, data=act[1])
                try:
                    yield self.mosaik.set_data(copy.deepcopy(act[1]))
                    self._rec(op="async_ret", kind="set_data", sid=self.sid, ok=True)
                except Exception as e:  # remote: RemoteException
                    self._rec(op="async_ret", kind="set_data", sid=self.sid, ok=False,
                              err=f"{type(e).__name__}: {e}"[:300])
                    if not beh.get("swallow_async_errors"):
                        raise
            elif act[0] == "get_data":
                self._rec(op="async", kind="get_data", sid=self.sid, time=time, k=k, req=act[1])
                try:
                    res = yield self.mosaik.get_data(copy.deepcopy(act[1]))
                    self._rec(op="async_ret", kind="get_data", sid=self.sid, ok=True, data=res)
                except Exception as e:
                    self._rec(op="async_ret", kind="get_data", sid=self.sid, ok=False,
                              err=f"{type(e).__name__}: {e}"[:300])
                    if not beh.get("swallow_async_errors"):
                        raise
            elif act[0] == "set_event":
                self._rec(op="async", kind="set_event", sid=self.sid, time=time, k=k, t=act[1])
                yield self.mosaik.set_event(act[1])

        # --- a step that blocks the whole process (what every in-process simulator does while it computes):
        # the virtual clock advances without the event loop running
        blk = beh.get("block")
        if blk and REC.ctl is not None or blk and REC.clock is not None:
            d_blk = blk.get(str(time), blk.get("*", 0)) if isinstance(blk, dict) else blk
            ctl_ = getattr(REC, "ctl_for_clock", None)
            if d_blk and ctl_ is not None:
                ctl_.now += d_blk
        # --- step duration / latency ---------------------------------------
        dur = self._duration(time, k, rng)
        if dur:
            import asyncio
            yield asyncio.sleep(dur)
        yield from self._latency("step")
        self._fault_late("step")

        # --- next step -------------------------------------------------------
        nxt: Optional[int]
        if typ == "time-based":
            sizes = beh.get("sizes", [1])
            nxt = time + sizes[rng.randrange(len(sizes))]
        else:
            nxt = None
            if rng.random() < beh.get("p_self", 0.0):
                nxt = time + 1 + rng.randrange(max(1, beh.get("horizon", 2)))
        sched = beh.get("self_steps")
        if sched is not None:       # explicit table overrides (C09/C17 scripted classes)
            nxt = sched.get(str(time))

        # --- outputs ---------------------------------------------------------
        out: Dict[str, Dict[str, Any]] = {}
        outs = self.spec.get("outs", {})
        weak_out = set(map(tuple, self.spec.get("weak_out", [])))
        Lmax = beh.get("Lmax", 2)
        L = beh.get("L")
        if L is None:
            L = 1 + H(self.seed, self.sid, time, "L") % max(1, Lmax)
        elif isinstance(L, dict):
            L = L.get(str(time), L.get("*", 1))
        em = self.spec.get("ent_model", {})
        for eid in self.spec.get("entities", ["e0"]):
            outs_e = self.spec.get("outs2", outs) if em.get(eid, "M") == "N" else outs
            for attr, kind in outs_e.items():
                if kind == "persistent":
                    emit = True
                else:
                    emit = rng.random() < beh.get("p_out", 0.7)
                if kind != "persistent" and (eid, attr) in weak_out:
                    # same-time loops must settle: an event that feeds a weak
                    # connection is emitted by at most L steps per time
                    if beh.get("never_settle"):
                        emit = True
                    elif k >= L:
                        emit = False
                if emit:
                    val = f"{self.sid}/{eid}/{attr}@{time}#{k}"
                    if kind == "persistent" and beh.get("p_none") and \
                            H(self.seed, self.sid, eid, attr, time, k, "none") % 1000 < beh["p_none"] * 1000:
                        val = None          # a legal value of a persistent attribute
                    elif kind == "persistent" and beh.get("dict_values"):
                        # a structured value whose key set changes from step to step (e.g. a set of active alarms)
                        val = {"v": val, "k%d" % (time % 3): time}
                    out.setdefault(eid, {})[attr] = val
        otime = None
        if beh.get("p_future", 0.0) and rng.random() < beh["p_future"]:
            otime = time + rng.randrange(1 + beh.get("horizon", 2))
        if beh.get("const_future"):
            otime = time + beh["const_future"]      # every output (persistent ones too) is valid from time + d on
        if beh.get("future_at_k") is not None and k == beh["future_at_k"]:
            otime = time + 1          # leave the same-time loop by announcing the output for the next time
        flt = self._reply_fault("step")
        if flt is not None:
            nxt = self._mangle_next(flt, time, nxt)
        oflt = self._reply_fault("get_data")
        if oflt is not None:
            otime = {"otime_minus1": time - 1, "otime_neg": -1}.get(oflt, otime)
        self.pending = {"out": out, "otime": otime, "time": time, "k": k}
        self.last_time = time
        self._rec(op="ret", kind="step", sid=self.sid, time=time, k=k, next=nxt)
        return nxt

    def get_data(self, outputs):
        p = self.pending
        self._rec(op="call", kind="get_data", sid=self.sid, time=p.get("time"), k=p.get("k"),
                  req=copy.deepcopy(outputs))
        self._fault("get_data")
        if p.get("fetched") and self.beh.get("slow_async_get_data") and not self.remote:
            # not the scheduler's own get_data after the step but a later one: an agent's asynchronous request,
            # which this (in-process) simulator takes very long to answer
            import asyncio
            yield asyncio.sleep(self.beh["slow_async_get_data"])
        p["fetched"] = True
        yield from self._latency("get_data")
        self._fault_late("get_data")
        data: Dict[str, Any] = {}
        for eid, attrs in outputs.items():
            for a in attrs:
                if a in p.get("out", {}).get(eid, {}):
                    data.setdefault(eid, {})[a] = p["out"][eid][a]
        if p.get("otime") is not None:
            data["time"] = p["otime"]
        self._rec(op="ret", kind="get_data", sid=self.sid, time=p.get("time"), k=p.get("k"),
                  data=copy.deepcopy(data))
        return data

    def finalize(self):
        self._rec(op="finalize", sid=self.sid, pid=os.getpid())
        if self.remote:
            try:
                self._log.close()
            except Exception:
                pass

    # ---- helpers -------------------------------------------------------------
    def _rec(self, **kw):
        if self.remote:
            kw["ns"] = _time.monotonic_ns()
            kw["pid"] = os.getpid()
            self._log.write(canon(kw) + "\n")
            return kw
        return REC.ev(**kw)

    def _mosaik_label(self):
        if self.remote:
            return None
        try:
            cs = self.mosaik.world.sims[self.sid].current_step
            return list(cs.tiers) if cs is not None else None
        except Exception:
            return None

    def _latency(self, kind):
        self.nreq += 1
        if self.remote:
            mx = self.spec["remote"].get("max_sleep", 0.0)
            if mx:
                _time.sleep(self._rng.random() * mx)
            fixed = (self.beh.get("remote_sleep") or {}).get(kind)
            if fixed:
                _time.sleep(fixed)          # a simulator that is busy for a while in this kind of request
            return
        ctl = REC.ctl
        if ctl is None or self.sid in REC.atomic_sims:
            return          # answers synchronously, like the in-process simulators of the test suite
        if REC.max_pre_yields and REC.lat_rng is not None:
            import asyncio
            for _ in range(REC.lat_rng.randrange(REC.max_pre_yields + 1)):
                yield asyncio.sleep(0)
        yield ctl.request(self.sid, kind)

    def _duration(self, time, k, rng):
        d = self.beh.get("dur")
        if d is None:
            return 0
        if isinstance(d, dict):
            return d.get(str(time), d.get("*", 0))
        return d

    def _async_actions(self, time, k, rng):
        acts = []
        ag = self.beh.get("agent") or {}
        # ag: {"targets": [[src_full, dest_full, attr], ...], "p_set":..,"get": [[full_id, attr],..], "p_get":..}
        if ag and (k == 0 or ag.get("every_substep")):
            data: Dict[str, Any] = {}
            for n, (src_full, dest_full, attr) in enumerate(ag.get("targets", [])):
                if rng.random() < ag.get("p_set", 0.6):
                    val = f"{self.sid}:set/{src_full}>{dest_full}/{attr}@{time}#{k}"
                    data.setdefault(src_full, {}).setdefault(dest_full, {})[attr] = val
            if data and not ag.get("dry"):
                acts.append(("set_data", data))
            req: Dict[str, List[str]] = {}
            for full_id, attr in ag.get("get", []):
                if rng.random() < ag.get("p_get", 0.5):
                    req.setdefault(full_id, []).append(attr)
            if req and not ag.get("dry"):
                acts.append(("get_data", req))
        ev = self.beh.get("set_events")
        if ev and (str(time) in ev or "*" in ev):
            for t in ev.get(str(time), ev.get("*", [])):
                acts.append(("set_event", t if t >= 0 else time - t))
        return acts

    # ---- fault injection (C13, C14) -------------------------------------------
    def _fault(self, kind):
        f = self.spec.get("fault")
        if not f or f.get("mode") != "crash":
            return
        if f.get("at_request") != self.nreq_total():
            return
        if f.get("late") and not self.remote:
            self._late_fault = kind      # fails when the reply is due (after the injected latency), see _fault_late
            return
        self._raise_fault(f, kind)

    def _fault_late(self, kind):
        if getattr(self, "_late_fault", None) == kind:
            self._late_fault = None
            self._raise_fault(self.spec["fault"], kind)

    def _raise_fault(self, f, kind):
        how = f.get("how")
        self._rec(op="fault", sid=self.sid, how=how, kind=kind)
        if how == "raise":
            raise RuntimeError(f"injected failure in {self.sid}.{kind}")
        if how.startswith("raise_"):
            import asyncio
            exc = {"TypeError": TypeError, "ValueError": ValueError, "KeyError": KeyError,
                   "ConnectionError": ConnectionError, "AssertionError": AssertionError,
                   # e.g. a simulator that wraps a job of its own which was cancelled
                   "CancelledError": asyncio.CancelledError}[how[6:]]
            raise exc(f"injected failure in {self.sid}.{kind}")
        if how == "exit":
            os._exit(3)
        if how == "exit_idle":
            # answer this request normally, then die a moment later while waiting for the next request
            import threading
            t = threading.Timer(f.get("idle_delay", 0.003), os._exit, (3,))
            t.daemon = True
            t.start()
            return
        if how == "close":
            # close the socket to mosaik and linger without answering
            ch = getattr(self.mosaik, "_channel", None)
            if ch is not None:
                ch._writer.transport.abort()
            _time.sleep(f.get("linger", 1.0))
            os._exit(0)

    def nreq_total(self):
        n = getattr(self, "_nreq_seen", 0)
        self._nreq_seen = n + 1
        return n

    def _reply_fault(self, kind):
        f = self.spec.get("fault")
        if not f or f.get("mode") != "reply" or f.get("kind") != kind:
            return None
        if f.get("at_step") != self.nstep - 1:
            return None
        self._rec(op="fault", sid=self.sid, how=f.get("how"), kind=kind)
        return f.get("how")

    def _mangle_next(self, how, time, nxt):
        return {
            "float": float(time + 1),
            "float_frac": time + 0.5,
            "str": str(time + 1),
            "list": [time + 1],
            "negative": -1,
            "equal": time,
            "less": time - 1,
            "none": None,
            "zero": 0,
            # malformed values that lie at or after the end of the simulation
            "float_until": float(self.until_hint if self.until_hint is not None else time + 1),
            "float_beyond": (self.until_hint if self.until_hint is not None else time + 1) + 0.5,
            "str_beyond": str((self.until_hint or time) + 3),
        }[how]
