"""Reference arithmetic for tiered time, written from the documentation
(docs/scenario-definition.rst, "Weak connections"), *not* from
``mosaik/tiered_time.py``.

A simulator in group path ``p`` (tuple, () = root) has labels
``(t, s_1, ..., s_len(p))``: main time plus one sub-time per enclosing group.
A connection from path ``p`` to path ``q`` with common prefix length ``c``

* keeps ``t`` and the sub-times of the ``c`` common groups,
* adds ``shift`` to ``t`` and restarts all sub-times at 0 (time-shifted connection: a later time step),
* adds 1 to the sub-time of the closest common group (weak; needs c >= 1),
* forgets the deeper source sub-times, starts deeper destination ones at 0.
"""
from __future__ import annotations

from typing import Dict, List, Optional, Tuple

Label = Tuple[int, ...]
Path = Tuple[int, ...]


def common(p: Path, q: Path) -> int:
    c = 0
    for a, b in zip(p, q):
        if a != b:
            break
        c += 1
    return c


def zero(path: Path, t: int = 0) -> Label:
    return (t,) + (0,) * len(path)


def delayed(label: Label, p: Path, q: Path, shift: int = 0, weak: bool = False) -> Label:
    """Label at the destination (path q) of an output with source label
    ``label`` (path p) over a connection (shift, weak)."""
    assert len(label) == 1 + len(p), (label, p)
    c = common(p, q)
    kept = list(label[:1 + c])
    if shift:
        # a later time step: "sub-steps within one time step" start from 0 again (like for
        # self-steps and future output times)
        kept = [kept[0] + shift] + [0] * c
    if weak:
        assert c >= 1, "weak connection without common group"
        kept[c] += 1
    return tuple(kept) + (0,) * (len(q) - c)


def adapt(label: Label, p: Path, q: Path) -> Label:
    return delayed(label, p, q, 0, False)


class Scn:
    """Static tables derived from a scenario JSON."""

    def __init__(self, scn: dict):
        self.scn = scn
        self.until: int = scn["until"]
        self.sims: Dict[str, dict] = {s["sid"]: s for s in scn["sims"]}
        self.path: Dict[str, Path] = {sid: tuple(s.get("path", [])) for sid, s in self.sims.items()}
        self.conns: List[dict] = list(scn.get("conns", []))
        self.asyncs: List[Tuple[str, str]] = [
            (c["src"], c["dst"]) for c in self.conns if c.get("async")]
        self.by_src: Dict[str, List[dict]] = {}
        self.by_dst: Dict[str, List[dict]] = {}
        for c in self.conns:
            self.by_src.setdefault(c["src"], []).append(c)
            self.by_dst.setdefault(c["dst"], []).append(c)

    def typ(self, sid: str) -> str:
        return self.sims[sid]["type"]

    def is_trigger(self, sid: str, attr: str, eid: Optional[str] = None) -> bool:
        s = self.sims[sid]
        ins = s.get("ins2", s.get("ins", {})) if s.get("ent_model", {}).get(eid, "M") == "N" else s.get("ins", {})
        kind = ins.get(attr)
        if kind is None and s.get("any_inputs"):
            # any_inputs: default by type
            return {"time-based": False, "event-based": True,
                    "hybrid": bool(s.get("any_default_trigger", False))}[s["type"]]
        return kind == "trigger"

    def is_persistent(self, sid: str, attr: str, eid: Optional[str] = None) -> bool:
        s = self.sims[sid]
        outs = s.get("outs2", s.get("outs", {})) if s.get("ent_model", {}).get(eid, "M") == "N" else s.get("outs", {})
        return outs.get(attr) == "persistent"

    def has_data(self, c: dict) -> bool:
        return "sa" in c

    def due(self, c: dict, label: Label) -> Label:
        return delayed(label, self.path[c["src"]], self.path[c["dst"]],
                       int(c.get("shift") or 0), bool(c.get("weak")))

    def due_order(self, c: dict, label: Label) -> Label:
        """Label that matters for *ordering* (C01): async_requests adds a zero-delay dependency
        next to whatever delay the data-flow of the same connect() call has."""
        if c.get("async"):
            return adapt(label, self.path[c["src"]], self.path[c["dst"]])
        return self.due(c, label)

    def adapt(self, src: str, dst: str, label: Label) -> Label:
        return adapt(label, self.path[src], self.path[dst])

    def zero(self, sid: str, t: int = 0) -> Label:
        return zero(self.path[sid], t)

    def has_connected_trigger_input(self, sid: str) -> bool:
        return any(self.has_data(c) and self.is_trigger(sid, c["da"], c["de"]) for c in self.by_dst.get(sid, []))

    def connected_outputs(self, sid: str) -> List[Tuple[str, str]]:
        seen = []
        for c in self.by_src.get(sid, []):
            if self.has_data(c) and (c["se"], c["sa"]) not in seen:
                seen.append((c["se"], c["sa"]))
        return seen


# ---------------------------------------------------------------------------
# Cycle oracle (C06; also used by the generator to stay inside accepted
# scenarios).  Brute force over simple cycles of the simulator multigraph.

def conn_resolves(c: dict, path: Dict[str, Path], cycle_sims: List[str]) -> bool:
    if c.get("async"):
        # async_requests adds a zero-delay dependency next to the data-flow
        return False
    if c.get("shift"):
        return True
    if c.get("weak"):
        p, q = path[c["src"]], path[c["dst"]]
        k = common(p, q)
        if k == 0:
            return False
        g = p[:k]
        return all(path[s][:k] == g for s in cycle_sims)
    return False


def simple_cycles(nodes: List[str], succ: Dict[str, set]):
    """All simple cycles (as lists of nodes, smallest node first)."""
    out = []
    order = {n: i for i, n in enumerate(nodes)}

    def dfs(start, cur, stack, on):
        for nx in succ.get(cur, ()):  # noqa: B007
            if nx == start:
                out.append(list(stack))
            elif order[nx] > order[start] and nx not in on:
                on.add(nx)
                stack.append(nx)
                dfs(start, nx, stack, on)
                stack.pop()
                on.discard(nx)

    for s in nodes:
        dfs(s, s, [s], {s})
    return out


def unresolved_cycles(scn: dict) -> List[List[str]]:
    sims = [s["sid"] for s in scn["sims"]]
    path = {s["sid"]: tuple(s.get("path", [])) for s in scn["sims"]}
    par: Dict[Tuple[str, str], List[dict]] = {}
    for c in scn.get("conns", []):
        par.setdefault((c["src"], c["dst"]), []).append(c)
    succ: Dict[str, set] = {}
    for (u, v) in par:
        succ.setdefault(u, set()).add(v)
    bad = []
    for cyc in simple_cycles(sims, succ):
        hops = [(cyc[i], cyc[(i + 1) % len(cyc)]) for i in range(len(cyc))]
        resolved = False
        for h in hops:
            if all(conn_resolves(c, path, cyc) for c in par[h]):
                resolved = True
                break
        if not resolved:
            bad.append(cyc)
    return bad
