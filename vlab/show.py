"""Pretty printers for scenarios and traces (debugging aid)."""
from __future__ import annotations


def show_scn(scn):
    out = [f"until={scn['until']} config={scn.get('config')}"]
    for s in scn["sims"]:
        b = s.get("beh", {})
        out.append(f"  {s['sid']} {s['type']:11s} path={tuple(s.get('path', []))} ents={s['entities']} "
                   f"ins={s['ins']} outs={s['outs']} init_ev={s.get('initial_event')} "
                   f"beh={{p_self:{b.get('p_self')},sizes:{b.get('sizes')},p_out:{b.get('p_out')},"
                   f"p_future:{b.get('p_future')},hor:{b.get('horizon')}}}")
    for c in scn.get("conns", []):
        k = "weak" if c.get("weak") else (f"shift{c['shift']}" if c.get("shift") else "plain")
        out.append(f"  {c['src']}.{c.get('se')}.{c.get('sa')} -> {c['dst']}.{c.get('de')}.{c.get('da')} {k}"
                   f"{' async' if c.get('async') else ''}{' init=' + str(c['init']) if 'init' in c else ''}")
    return "\n".join(out)


def show_events(events, start=0, end=None):
    out = []
    for e in events[start:end]:
        op, kind = e.get("op"), e.get("kind")
        if op == "call" and kind == "step":
            out.append(f"{e['i']:4d} {e['sid']} STEP  t={e['time']} k={e['k']} lab={e.get('lab')} "
                       f"ma={e['max_advance']} in={e['inputs']}")
        elif op == "ret" and kind == "step":
            out.append(f"{e['i']:4d} {e['sid']} step> next={e.get('next')}")
        elif op == "ret" and kind == "get_data":
            out.append(f"{e['i']:4d} {e['sid']} data> {e.get('data')}")
        elif op == "call" and kind == "get_data":
            pass
        elif op in ("init",):
            pass
        else:
            out.append(f"{e['i']:4d} {e.get('sid')} {op} {kind or ''} " +
                       " ".join(f"{k}={v}" for k, v in e.items() if k not in ("i", "sid", "op", "kind", "pid")))
    return "\n".join(out)
