"""Controlled event loop for engine A ("simlab").

``VLoop`` is a ``SelectorEventLoop`` whose clock is virtual and whose selector
hands control to a :class:`Controller` whenever the loop is *quiescent* (no
callback ready).  At that instant every mosaik task is blocked, and the only
things that can make progress are (a) a reply of a simulator request that is
"in flight" (a future the scripted simulator yielded to ``LocalProxy.send``)
or (b) a timer.  The controller chooses which, according to a policy, and
records the choice -> a schedule is a list of integers and can be replayed.

Nothing in here touches mosaik internals.
"""
from __future__ import annotations

import asyncio
import heapq
import random
import selectors
from typing import Any, Callable, List, Optional


class Deadlock(Exception):
    """Loop idle, nothing in flight, no timer, no real fd: nothing can ever
    happen again although ``run_until_complete`` has not finished."""


class Livelock(Exception):
    """The loop kept running callbacks for more than the logical budget
    without reaching a quiescent point or a simulator API boundary event."""


class BudgetExceeded(Exception):
    """More controller decisions than the logical budget of the case."""


class InFlight:
    __slots__ = ("rid", "sid", "kind", "fut", "info")

    def __init__(self, rid: int, sid: str, kind: str, fut: "asyncio.Future[Any]", info: Any):
        self.rid = rid
        self.sid = sid
        self.kind = kind
        self.fut = fut
        self.info = info

    def __repr__(self):
        return f"<{self.rid}:{self.sid}.{self.kind}>"


class Policy:
    """Chooses which in-flight replies complete at a quiescent point."""

    name = "base"

    def choose(self, ctl: "Controller", cands: List[InFlight]) -> List[int]:
        raise NotImplementedError


class RandomPolicy(Policy):
    name = "random"

    def __init__(self, rng: random.Random, batch_p: float = 0.0):
        self.rng = rng
        self.batch_p = batch_p

    def choose(self, ctl, cands):
        i = self.rng.randrange(len(cands))
        out = [i]
        if self.batch_p and len(cands) > 1:
            for j in range(len(cands)):
                if j != i and self.rng.random() < self.batch_p:
                    out.append(j)
        return out


class FifoPolicy(Policy):
    name = "fifo"

    def choose(self, ctl, cands):
        return [0]


class LifoPolicy(Policy):
    name = "lifo"

    def choose(self, ctl, cands):
        return [len(cands) - 1]


class AllPolicy(Policy):
    """Everything in flight completes at once (closest to in-process FIFO)."""
    name = "all"

    def choose(self, ctl, cands):
        return list(range(len(cands)))


class PrioPolicy(Policy):
    """Fixed priority order of simulators; highest priority in flight wins."""
    name = "prio"

    def __init__(self, order: List[str]):
        self.rank = {sid: i for i, sid in enumerate(order)}

    def choose(self, ctl, cands):
        best = min(range(len(cands)), key=lambda i: (self.rank.get(cands[i].sid, 99), cands[i].rid))
        return [best]


class PCTPolicy(Policy):
    """PCT-style: random priorities, d change points at which the currently
    chosen simulator is demoted below everybody else."""
    name = "pct"

    def __init__(self, rng: random.Random, sids: List[str], d: int, horizon: int):
        order = list(sids)
        rng.shuffle(order)
        self.prio = {sid: len(order) - i for i, sid in enumerate(order)}
        self.low = 0
        self.change = set(rng.randrange(max(1, horizon)) for _ in range(d))

    def choose(self, ctl, cands):
        best = max(range(len(cands)), key=lambda i: (self.prio.get(cands[i].sid, 0), -cands[i].rid))
        if ctl.decisions in self.change:
            self.low -= 1
            self.prio[cands[best].sid] = self.low
            best = max(range(len(cands)), key=lambda i: (self.prio.get(cands[i].sid, 0), -cands[i].rid))
        return [best]


class StarvePolicy(Policy):
    """Never complete a reply of the starved simulators while anything else
    can run (they answer only when the rest of the world is blocked)."""
    name = "starve"

    def __init__(self, rng: random.Random, starved: List[str]):
        self.rng = rng
        self.starved = set(starved)

    def choose(self, ctl, cands):
        others = [i for i, c in enumerate(cands) if c.sid not in self.starved]
        pool = others or list(range(len(cands)))
        return [self.rng.choice(pool)]


class ReplayPolicy(Policy):
    """Follow a recorded schedule; past its end fall back to ``default``
    (index 0).  Used for replay files and for the stateless DFS."""
    name = "replay"

    def __init__(self, schedule: List[Any], fallback: Optional[Policy] = None):
        self.schedule = list(schedule)
        self.pos = 0
        self.fallback = fallback or FifoPolicy()

    def choose(self, ctl, cands):
        if self.pos < len(self.schedule):
            c = self.schedule[self.pos]
            self.pos += 1
            c = c if isinstance(c, list) else [c]
            c = [i for i in c if 0 <= i < len(cands)]
            if c:
                return c
            return [0]
        self.pos += 1
        return self.fallback.choose(ctl, cands)


class Controller:
    """Owns the virtual clock, the set of in-flight simulator requests and
    the schedule taken so far."""

    def __init__(self, policy: Policy, max_decisions: int = 200000, spin_budget: int = 20000,
                 real_select_cap: float = 20.0):
        self.policy = policy
        self.now = 0.0
        self.inflight: List[InFlight] = []
        self.next_rid = 0
        self.decisions = 0
        self.schedule: List[Any] = []       # choices taken
        self.branching: List[int] = []      # number of candidates at each decision
        self.max_inflight = 0
        self.max_inflight_sims = 0
        self.spin = 0                      # select(0) passes since last boundary event
        self.spin_budget = spin_budget
        self.max_decisions = max_decisions
        self.timer_advances = 0
        self.real_select_cap = real_select_cap
        self.loop: Optional["VLoop"] = None
        self.on_decision: Optional[Callable[[InFlight], None]] = None
        self.idle_points = 0
        self.finished = False
        self.failure: Optional[Exception] = None

    # -- API for simulators -------------------------------------------------
    def boundary(self):
        """A simulator API boundary event happened (resets the spin counter)."""
        self.spin = 0

    def request(self, sid: str, kind: str, info: Any = None) -> "asyncio.Future[Any]":
        assert self.loop is not None
        fut = self.loop.create_future()
        ent = InFlight(self.next_rid, sid, kind, fut, info)
        self.next_rid += 1
        self.inflight.append(ent)
        self.spin = 0
        if len(self.inflight) > self.max_inflight:
            self.max_inflight = len(self.inflight)
        n = len({e.sid for e in self.inflight if e.kind != "setup_done" and not e.fut.done()})
        if n > self.max_inflight_sims:
            self.max_inflight_sims = n
        return fut

    def clock(self) -> float:
        return self.now

    # -- called by the selector --------------------------------------------
    def _fail(self, exc: Exception):
        # stop controlling: mosaik's shutdown path must run on a normal loop
        self.finished = True
        self.failure = exc
        raise exc

    def on_busy(self):
        self.spin += 1
        if self.spin > self.spin_budget:
            self._fail(Livelock(f"{self.spin} loop passes without reaching a quiescent point "
                                f"or a simulator API event"))

    def on_idle(self, timeout: Optional[float], has_real_fds: bool) -> str:
        """Return 'resolved', 'timer', 'real' (caller does a real select)."""
        self.idle_points += 1
        self.spin = 0
        live = [e for e in self.inflight if not e.fut.done()]
        self.inflight = live
        if live:
            if self.decisions >= self.max_decisions:
                self._fail(BudgetExceeded(f"{self.decisions} controller decisions"))
            picks = self.policy.choose(self, live)
            self.schedule.append(picks[0] if len(picks) == 1 else list(picks))
            self.branching.append(len(live))
            self.decisions += 1
            chosen = [live[i] for i in picks]
            for ent in chosen:
                if self.on_decision:
                    self.on_decision(ent)
                ent.fut.set_result(None)
            self.inflight = [e for e in live if e not in chosen]
            return "resolved"
        if timeout is not None:
            sched = getattr(self.loop, "_scheduled", None)
            if sched:
                # land exactly on the timer (no float drift on the virtual clock)
                self.now = max(self.now, sched[0]._when)
            else:
                self.now += timeout
            self.timer_advances += 1
            return "timer"
        if has_real_fds:
            return "real"
        self._fail(Deadlock("event loop idle: no reply in flight, no timer, no real fd"))
        return "never"


class CtlSelector(selectors.DefaultSelector):  # type: ignore[misc,valid-type]
    """Selector that asks the controller what happens at quiescent points."""

    ctl: Controller

    def n_real(self) -> int:
        # the loop's self-pipe is always registered
        return len(self.get_map()) - 1

    def select(self, timeout=None):
        ctl = self.ctl
        if ctl is None or ctl.finished:
            return super().select(timeout)
        if timeout is not None and timeout <= 0:
            ctl.on_busy()
            if self.n_real() > 0:
                return super().select(0)
            return []
        what = ctl.on_idle(timeout, self.n_real() > 0)
        if what == "real":
            cap = ctl.real_select_cap
            t = cap if timeout is None else min(timeout, cap)
            ev = super().select(t)
            if not ev and timeout is None:
                ctl._fail(Deadlock(f"no socket activity for {cap}s and nothing else can happen"))
            return ev
        if self.n_real() > 0:
            return super().select(0)
        return []


class VLoop(asyncio.SelectorEventLoop):
    """SelectorEventLoop with a virtual clock and a controlled selector."""

    def __init__(self, ctl: Controller):
        sel = CtlSelector()
        sel.ctl = None  # type: ignore  # not active while the loop builds itself
        super().__init__(sel)
        self.ctl = ctl
        ctl.loop = self
        sel.ctl = ctl
        # timers must fire exactly on the virtual instant
        self._clock_resolution = 1e-12

    def time(self) -> float:
        return self.ctl.now

    pending_at_close = None

    def close(self):
        if not self.is_closed() and self.pending_at_close is None:
            try:
                self.pending_at_close = [repr(t)[:240] for t in asyncio.all_tasks(self) if not t.done()]
            except Exception:  # noqa: BLE001
                self.pending_at_close = []
        super().close()

    def release(self):
        """Stop controlling (used before shutdown so that mosaik's own
        ``loop.stop(); loop.run_forever(); loop.close()`` works normally)."""
        self.ctl.finished = True
