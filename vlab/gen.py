"""Seeded scenario generator (engine A).  Emits scenario JSON inside the
scenario/behaviour envelope described in DESIGN.md section 2.1."""
from __future__ import annotations

import random
from typing import Any, Dict, List, Optional, Tuple

from .model import common, unresolved_cycles
from .sims import H

PATHS_BY_DEPTH = {
    0: [()],
    1: [(), (0,), (1,)],
    2: [(), (0,), (1,), (0, 0), (0, 1)],
    3: [(), (0,), (1,), (0, 0), (0, 1), (1, 0), (0, 0, 0), (0, 0, 1), (0, 1, 0)],
}

DEFAULT_PROFILE: Dict[str, Any] = {
    "n_sims": (2, 5),
    "depth": 2,              # max group depth
    "p_root": 0.35,          # probability that a simulator is at the root
    "until": (2, 7),
    "types": {"time-based": 3, "event-based": 4, "hybrid": 3},
    "n_conns": (1, 7),
    "kinds": {"plain": 6, "shift": 3, "weak": 3},
    "max_shift": 3,
    "p_back": 0.35,          # connection against the topological order (cycle closing)
    "p_self": 0.08,          # self connection
    "p_two_entities": 0.3,
    "p_initial_event": 0.5,
    "p_future": 0.35,        # simulator may use future output times
    "p_selfstep": (0.0, 0.9),
    "sizes": [[1], [2], [3], [1, 2], [1, 3], [2, 5]],
    "Lmax": 3,
    "amplify": True,
    "cache": None,           # None = random
    "lazy": None,
    "debug": 0.1,
}


def pick_w(rng: random.Random, weights: Dict[str, float]) -> str:
    items = [(k, w) for k, w in weights.items() if w > 0]
    tot = sum(w for _, w in items)
    x = rng.random() * tot
    for k, w in items:
        x -= w
        if x <= 0:
            return k
    return items[-1][0]


def _ins_of(sim: dict, eid: str) -> dict:
    return sim.get("ins2", sim["ins"]) if sim.get("ent_model", {}).get(eid, "M") == "N" else sim["ins"]


def _outs_of(sim: dict, eid: str) -> dict:
    return sim.get("outs2", sim["outs"]) if sim.get("ent_model", {}).get(eid, "M") == "N" else sim["outs"]


def _is_trigger(sim: dict, attr: str, eid: str = "e0") -> bool:
    kind = _ins_of(sim, eid).get(attr)
    if kind is None:      # any_inputs: undeclared attribute, default by type (hybrid: non-trigger)
        return sim["type"] == "event-based"
    return kind == "trigger"


def gen_scenario(seed: int, profile: Optional[dict] = None) -> dict:
    prof = dict(DEFAULT_PROFILE)
    if profile:
        prof.update(profile)
    rng = random.Random(seed)
    n = rng.randint(*prof["n_sims"])
    depth = prof["depth"]
    paths = PATHS_BY_DEPTH[depth]
    until = rng.randint(*prof["until"])
    sims: List[dict] = []
    for i in range(n):
        typ = pick_w(rng, prof["types"])
        if depth == 0 or rng.random() < prof["p_root"]:
            path: Tuple[int, ...] = ()
        else:
            path = rng.choice([p for p in paths if p])
        ents = ["e0", "e1"] if rng.random() < prof["p_two_entities"] else ["e0"]
        if len(ents) == 2 and rng.random() < 0.2:
            ents.append("e2")
        n_in = rng.randint(1, 3)
        n_out = rng.randint(1, 3)
        ins: Dict[str, str] = {}
        outs: Dict[str, str] = {}
        for j in range(n_in):
            if typ == "time-based":
                ins[f"i{j}"] = "nontrigger"
            elif typ == "event-based":
                ins[f"i{j}"] = "trigger"
            else:
                ins[f"i{j}"] = rng.choice(["trigger", "nontrigger"])
        for j in range(n_out):
            if typ == "time-based":
                outs[f"o{j}"] = "persistent"
            elif typ == "event-based":
                outs[f"o{j}"] = "nonpersistent"
            else:
                outs[f"o{j}"] = rng.choice(["persistent", "nonpersistent"])
        lo, hi = prof["p_selfstep"]
        beh: Dict[str, Any] = {
            "seed": rng.randrange(1 << 30),
            "sizes": rng.choice(prof["sizes"]),
            "p_self": round(lo + (hi - lo) * rng.random(), 2),
            "horizon": rng.randint(1, 3),
            "p_out": rng.choice([0.3, 0.6, 0.9, 1.0]),
            "Lmax": prof["Lmax"],
            "amplify": prof["amplify"],
        }
        sim = {"sid": f"S{i}", "type": typ, "path": list(path), "entities": ents,
               "ins": ins, "outs": outs, "beh": beh}
        if rng.random() < prof.get("p_any_inputs", 0.12):
            sim["any_inputs"] = True     # accepts every attribute name as input
        if typ == "hybrid" and len(ents) >= 2 and rng.random() < prof.get("p_second_model", 0.5):
            # the last entity is an instance of a second model with the same attribute names but other kinds
            flip_i = {"trigger": "nontrigger", "nontrigger": "trigger"}
            flip_o = {"persistent": "nonpersistent", "nonpersistent": "persistent"}
            sim["ins2"] = {a: (flip_i[k] if rng.random() < 0.6 else k) for a, k in ins.items()}
            sim["outs2"] = {a: (flip_o[k] if rng.random() < 0.6 else k) for a, k in outs.items()}
            sim["ent_model"] = {ents[-1]: "N"}
        sims.append(sim)
    # connections ---------------------------------------------------------
    order = list(range(n))
    rng.shuffle(order)
    rank = {sims[i]["sid"]: r for r, i in enumerate(order)}
    conns: List[dict] = []
    used_slots = set()
    n_conns = rng.randint(*prof["n_conns"])
    tries = 0
    while len(conns) < n_conns and tries < 60:
        tries += 1
        a = rng.choice(sims)
        if rng.random() < prof["p_self"]:
            b = a
        else:
            b = rng.choice(sims)
            if b is a:
                continue
        forward = rank[a["sid"]] < rank[b["sid"]]
        if a is not b and not forward and rng.random() > prof["p_back"]:
            a, b = b, a
            forward = True
        kind = pick_w(rng, prof["kinds"])
        pa, pb = tuple(a["path"]), tuple(b["path"])
        if kind == "weak" and common(pa, pb) == 0:
            kind = rng.choice(["plain", "shift"])
        if (a is b or not forward) and kind == "plain":
            kind = "shift" if (common(pa, pb) == 0 or rng.random() < 0.5) else "weak"
        sa = rng.choice(list(a["outs"]))
        da = rng.choice(list(b["ins"]))
        if b.get("any_inputs") and rng.random() < 0.6:
            da = f"x{rng.randrange(3)}"          # an attribute the model never declared
        se = rng.choice(a["entities"])
        de = rng.choice(b["entities"])
        slot = (a["sid"], se, b["sid"], de, da)
        if slot in used_slots and not prof.get("wild"):
            continue
        src_pers = _outs_of(a, se)[sa] == "persistent"
        dst_trig = _is_trigger(b, da, de)
        c: Dict[str, Any] = {"src": a["sid"], "se": se, "sa": sa, "dst": b["sid"], "de": de, "da": da}
        if kind == "shift":
            c["shift"] = rng.randint(1, prof["max_shift"])
            if c["shift"] == 1 and rng.random() < 0.5:
                c["shift_int"] = True   # pass time_shifted=1 instead of True
        elif kind == "weak":
            c["weak"] = True
            if rng.random() < prof.get("p_weak_shift", 0.15):
                # both flags in one connect(): a later time step AND the next sub-step of the common group
                c["shift"] = 1
        if kind in ("shift", "weak"):
            if not src_pers and not dst_trig:
                if not prof.get("wild"):
                    continue        # envelope (iii)
                c["init"] = f"init:{a['sid']}.{se}.{sa}"
            if kind == "weak" and src_pers and dst_trig:
                continue            # envelope (iv)
            if src_pers:
                c["init"] = f"init:{a['sid']}.{se}.{sa}"   # envelope (ii)
        if kind == "plain" and forward and a is not b and rng.random() < prof.get("p_async", 0.06):
            c["async"] = True       # async_requests=True on a plain forward connection (ordering only)
        used_slots.add(slot)
        conns.append(c)
    scn: Dict[str, Any] = {"until": until, "sims": sims, "conns": conns}
    # stay inside accepted scenarios: convert offending weak edges to shifts
    for _ in range(20):
        bad = unresolved_cycles(scn)
        if not bad:
            break
        cyc = bad[0]
        cands = [c for c in conns if c["src"] in cyc and c["dst"] in cyc and not c.get("shift")]
        fixed = False
        rng.shuffle(cands)
        for c in cands:
            a = next(s for s in sims if s["sid"] == c["src"])
            b = next(s for s in sims if s["sid"] == c["dst"])
            src_pers = _outs_of(a, c["se"])[c["sa"]] == "persistent"
            dst_trig = _is_trigger(b, c["da"], c["de"])
            if not src_pers and not dst_trig:
                continue
            c.pop("weak", None)
            c["shift"] = 1
            if src_pers:
                c["init"] = f"init:{c['src']}.{c['se']}.{c['sa']}"
            fixed = True
            break
        if not fixed:
            # drop a connection of the cycle
            victim = next(c for c in conns if c["src"] in cyc and c["dst"] in cyc)
            conns.remove(victim)
    # async_requests connections get an agent that really writes (sparse set_data with unique values)
    for c in conns:
        if c.get("async"):
            b = next(s_ for s_ in sims if s_["sid"] == c["dst"])
            ag = b["beh"].setdefault("agent", {"targets": [], "p_set": rng.choice([0.4, 0.8]), "get": [], "p_get": 0.0})
            tgt = [f"{c['dst']}.{c['de']}", f"{c['src']}.{c['se']}", "sd"]
            if tgt not in ag["targets"]:
                ag["targets"].append(tgt)
    if all(not s_["path"] for s_ in sims):
        # None is a legal value of a persistent attribute, but not a unique one: only in scenarios without
        # groups, where no classifier has to identify the write an observed value came from
        for s_ in sims:
            if rng.random() < prof.get("p_none_values", 0.3):
                s_["beh"]["p_none"] = 0.15
            if H(seed, s_["sid"], "dict_values") % 5 == 0:
                s_["beh"]["dict_values"] = True      # persistent values are dicts with a changing key set
    # future output times only where all connected outputs are non-persistent
    for s in sims:
        outs_conn = [(c["se"], c["sa"]) for c in conns if c["src"] == s["sid"]]
        if s["type"] != "time-based" and outs_conn and all(_outs_of(s, e_)[a] == "nonpersistent" for e_, a in outs_conn):
            if rng.random() < prof["p_future"]:
                s["beh"]["p_future"] = rng.choice([0.2, 0.5])
        if s["type"] == "event-based" and rng.random() < prof["p_initial_event"]:
            s["initial_event"] = rng.randrange(0, max(1, until))
    # a persistent output announced for a *later* time: well-defined when the output times of the producer
    # increase strictly (a constant offset on a simulator that performs no sub-steps, i.e. outside every group)
    # and when every connection from its persistent outputs declares initial data (before the first value is
    # due a connection without initial data has nothing to deliver; mosaik warns that this "will be an error").
    # Own random stream: the rest of the scenario is what it was without this feature.
    rng_cf = random.Random(seed ^ 0x5cf)
    for s in sims:
        pers_conns = [c for c in conns if c["src"] == s["sid"] and _outs_of(s, c["se"])[c["sa"]] == "persistent"]
        if s["type"] != "time-based" and not s["path"] and "p_future" not in s["beh"] and pers_conns and \
                all("init" in c for c in pers_conns):
            if rng_cf.random() < prof.get("p_const_future", 0.6):
                s["beh"]["const_future"] = rng_cf.choice([1, 1, 2, 3])
    cfg = {
        "cache": rng.random() < 0.5 if prof["cache"] is None else prof["cache"],
        "lazy": rng.random() < 0.7 if prof["lazy"] is None else prof["lazy"],
        "debug": rng.random() < prof["debug"],
        "order_seed": rng.randrange(1 << 20) if rng.random() < 0.7 else None,
        "merge_connects": rng.random() < 0.4,
        # every sixth scenario makes its single-pair connections through the public World.connect_one()
        "connect_one": H(seed, "connect_one") % 6 == 0,
    }
    scn["config"] = cfg
    scn["gen"] = {"seed": seed}
    return scn


def features(scn: dict) -> Dict[str, Any]:
    """Cheap structural features for the evidence."""
    f: Dict[str, Any] = {}
    f["n_sims"] = len(scn["sims"])
    f["depth"] = max((len(s.get("path", [])) for s in scn["sims"]), default=0)
    kinds = set()
    for c in scn.get("conns", []):
        kinds.add("weak" if c.get("weak") else ("shift" if c.get("shift") else "plain"))
        if c["src"] == c["dst"]:
            kinds.add("self")
    f["kinds"] = sorted(kinds)
    paths = {tuple(s.get("path", [])) for s in scn["sims"]}
    f["sibling_groups"] = any(p and q and p != q and common(p, q) < min(len(p), len(q))
                              for p in paths for q in paths)
    return f


PROFILES: Dict[str, dict] = {
    "core": {},
    "flat": {"depth": 0, "kinds": {"plain": 6, "shift": 4, "weak": 0}},
    "deep": {"depth": 3, "p_root": 0.2, "n_sims": (3, 6)},
    "events": {"types": {"time-based": 1, "event-based": 6, "hybrid": 3}, "p_future": 0.7,
               "p_initial_event": 0.8, "p_selfstep": (0.2, 0.9)},
    "events_flat": {"depth": 0, "kinds": {"plain": 6, "shift": 4, "weak": 0},
                    "types": {"time-based": 1, "event-based": 6, "hybrid": 3}, "p_future": 0.7,
                    "p_initial_event": 0.8},
    "par": {"n_sims": (2, 3), "n_conns": (4, 10), "p_back": 0.5, "p_two_entities": 0.6},
    "par_flat": {"n_sims": (2, 3), "n_conns": (4, 10), "p_back": 0.5, "p_two_entities": 0.6,
                 "depth": 0, "kinds": {"plain": 5, "shift": 5, "weak": 0}},
    "lazy": {"lazy": True, "types": {"time-based": 5, "event-based": 2, "hybrid": 3},
             "sizes": [[1], [1], [2], [1, 2], [3]]},
    "lazy_flat": {"lazy": True, "depth": 0, "kinds": {"plain": 6, "shift": 4, "weak": 0},
                  "types": {"time-based": 5, "event-based": 2, "hybrid": 3}},
    "chain": {"types": {"time-based": 1, "event-based": 6, "hybrid": 2}, "n_sims": (3, 6),
              "n_conns": (3, 8), "kinds": {"plain": 7, "shift": 2, "weak": 2}, "p_back": 0.2,
              "p_future": 0.5, "p_initial_event": 0.9},
    "data": {"types": {"time-based": 5, "event-based": 2, "hybrid": 4}, "kinds": {"plain": 4, "shift": 5, "weak": 2},
             "sizes": [[1], [2], [3], [1, 3], [2, 5], [4]], "until": (4, 9)},
    "data_flat": {"depth": 0, "types": {"time-based": 5, "event-based": 2, "hybrid": 4},
                  "kinds": {"plain": 4, "shift": 6, "weak": 0},
                  "sizes": [[1], [2], [3], [1, 3], [2, 5], [4]], "until": (4, 9)},
    "big": {"n_sims": (5, 6), "n_conns": (5, 12), "depth": 3},
}

PROFILES["tiny"] = {"n_sims": (2, 3), "until": (2, 3), "n_conns": (1, 4), "depth": 1, "p_two_entities": 0.1}
PROFILES["tiny_flat"] = {"n_sims": (2, 3), "until": (2, 3), "n_conns": (1, 4), "depth": 0,
                         "kinds": {"plain": 6, "shift": 4, "weak": 0}, "p_two_entities": 0.1}

PROFILES["sibling"] = {"depth": 2, "p_root": 0.15, "n_sims": (3, 5), "kinds": {"plain": 5, "shift": 1, "weak": 5},
                       "types": {"time-based": 1, "event-based": 6, "hybrid": 3}, "p_initial_event": 0.9,
                       "n_conns": (3, 8), "Lmax": 3}

# outside the data envelope (several connections into one input slot, initial data on event connections):
# only completion (C05) is judged on these, never the data content
PROFILES["wild"] = {"wild": True, "n_conns": (3, 10), "p_two_entities": 0.2}
PROFILES["wild_flat"] = {"wild": True, "n_conns": (3, 10), "depth": 0, "kinds": {"plain": 5, "shift": 5, "weak": 0}}
