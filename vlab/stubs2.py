"""Stub simulator classes whose *names* collide with those in vlab.stubs but whose signatures are the
opposite ones (two packages that both call their class the same is ordinary)."""
from . import stubs


class V3Sig(stubs.V2Sig):          # named like the v3 stub, but v2 signatures
    pass


class V2Sig(stubs.V3Sig):          # named like the v2 stub, but v3 signatures
    pass
