"""Stub simulator classes whose *names* collide with those in vlab.stubs but whose signatures are the
opposite ones (two packages that both call their class the same is ordinary)."""
from . import stubs


class V3Sig(stubs.V2Sig):          # named like the v3 stub, but v2 signatures
    pass


class V2Sig(stubs.V3Sig):          # named like the v2 stub, but v3 signatures
    pass


def _make(base):
    """A class factory: every class it returns has the same module and the same qualified name
    (``_make.<locals>.FactorySim``), whatever its signatures are."""
    class FactorySim(base):
        pass
    return FactorySim


FactoryV2 = _make(stubs.V2Sig)     # v2 signatures
FactoryV3 = _make(stubs.V3Sig)     # v3 signatures
