"""Entry point of a remote ScriptedSim process: ``python -m vlab.simproc HOST:PORT``."""
import sys

import mosaik_api_v3

from vlab.sims import ScriptedSim


def main():
    return mosaik_api_v3.start_simulation(ScriptedSim(), "vlab scripted simulator", configure_logging=False)


if __name__ == "__main__":
    sys.exit(main())
