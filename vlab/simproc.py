"""Entry point of a remote ScriptedSim process: ``python -m vlab.simproc HOST:PORT``.

The harness process (not the repository) also records when the 'stop' request arrives on the wire: the
simulator API gives a simulator no callback for it (finalize() runs after 'stop' *and* after a plain EOF)."""
import sys

import mosaik_api_v3
from mosaik_api_v3.connection import Channel

from vlab.sims import ScriptedSim


def main():
    sim = ScriptedSim()
    orig = Channel.next_request

    async def next_request(self):
        req = await orig(self)
        try:
            if req.content[0] == "stop" and sim.remote:
                sim._rec(op="stop_received", sid=sim.sid)
        except Exception:  # noqa: BLE001
            pass
        return req

    Channel.next_request = next_request
    return mosaik_api_v3.start_simulation(sim, "vlab scripted simulator", configure_logging=False)


if __name__ == "__main__":
    sys.exit(main())
