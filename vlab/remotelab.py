"""Engine B: run a scenario with real simulator processes (cmd transport)."""
from __future__ import annotations

import asyncio
import json
import os
import shutil
import signal
import tempfile
import time as _time
import traceback
import warnings
from typing import Any, Dict, List, Optional

from . import build as vbuild
from . import sims as vsims


class Watchdog(Exception):
    pass


def read_remote_logs(rdir: str) -> Dict[str, List[dict]]:
    out: Dict[str, List[dict]] = {}
    for fn in sorted(os.listdir(rdir)):
        if not fn.endswith(".jsonl"):
            continue
        sid = fn[:-6]
        evs = []
        with open(os.path.join(rdir, fn)) as f:
            for line in f:
                line = line.strip()
                if line:
                    try:
                        evs.append(json.loads(line))
                    except Exception:
                        pass
        out[sid] = evs
    return out


def run_remote(scn: dict, remote_sims: Optional[List[str]] = None, max_sleep: float = 0.01,
               sleep_seed: int = 0, watchdog_s: float = 60.0, keep_dir: bool = False) -> dict:
    """Run on a plain asyncio loop (real sockets).  Simulators in ``remote_sims``
    (default: all) are separate processes; the rest run in-process atomically."""
    vbuild.setup_logging()
    rec = vsims.Recorder()
    vsims.set_recorder(rec)
    del vbuild.LOGS[:]
    rdir = tempfile.mkdtemp(prefix="vlab-remote-")
    scn = json.loads(json.dumps(scn))
    cfg = scn.setdefault("config", {})
    cfg["remote_sims"] = remote_sims if remote_sims is not None else [s["sid"] for s in scn["sims"]]
    cfg["remote_max_sleep"] = max_sleep
    cfg["sleep_seed"] = sleep_seed
    cfg.setdefault("mosaik_config", {"start_timeout": 90, "stop_timeout": 5})
    trace: Dict[str, Any] = {"outcome": None}
    world = None
    t0 = _time.time()

    def on_alarm(signum, frame):
        raise Watchdog(f"no result after {watchdog_s}s")

    old = signal.signal(signal.SIGALRM, on_alarm)
    signal.setitimer(signal.ITIMER_REAL, watchdog_s)
    try:
        with warnings.catch_warnings():
            warnings.simplefilter("ignore")
            try:
                loop = asyncio.new_event_loop()
                asyncio.set_event_loop(loop)
                world, ents, conn_results = vbuild.build_world(scn, loop, transport="remote", remote_dir=rdir)
                trace["connect"] = conn_results
                world.run(until=scn["until"], print_progress=False, lazy_stepping=bool(cfg.get("lazy", True)))
                trace["outcome"] = {"kind": "ok"}
            except Watchdog as e:
                trace["outcome"] = {"kind": "watchdog", "msg": str(e)}
            except BaseException as e:  # noqa: BLE001
                if isinstance(e, KeyboardInterrupt):
                    raise
                tb = traceback.extract_tb(e.__traceback__)
                trace["outcome"] = {"kind": "error", "type": type(e).__name__, "msg": str(e)[:500],
                                    "where": [f"{f.filename.split('/')[-1]}:{f.lineno}:{f.name}" for f in tb[-4:]]}
    finally:
        signal.setitimer(signal.ITIMER_REAL, 0)
        signal.signal(signal.SIGALRM, old)
        try:
            if world is not None and not world.loop.is_closed():
                signal.setitimer(signal.ITIMER_REAL, 15)
                signal.signal(signal.SIGALRM, on_alarm)
                try:
                    world.shutdown()
                except BaseException as e:  # noqa: BLE001
                    trace["shutdown_error"] = f"{type(e).__name__}: {e}"[:200]
                finally:
                    signal.setitimer(signal.ITIMER_REAL, 0)
                    signal.signal(signal.SIGALRM, old)
        except Exception:
            pass
        try:
            import mosaik._debug as dbg
            dbg.disable()
        except Exception:
            pass
    # give processes a moment to flush/exit
    _time.sleep(0.05)
    trace["remote_events"] = read_remote_logs(rdir)
    trace["events"] = rec.events
    trace["logs"] = list(vbuild.LOGS)
    trace["wall_s"] = round(_time.time() - t0, 3)
    trace["dir"] = rdir
    if not keep_dir:
        shutil.rmtree(rdir, ignore_errors=True)
    return trace


def seqs_from_remote(trace: dict) -> Dict[str, List[tuple]]:
    out: Dict[str, List[tuple]] = {}
    for sid, evs in trace["remote_events"].items():
        out[sid] = [(e["time"], e.get("k", 0), vsims.canon(e["inputs"])) for e in evs
                    if e.get("op") == "call" and e.get("kind") == "step"]
    for e in trace["events"]:
        if e.get("op") == "call" and e.get("kind") == "step":
            out.setdefault(e["sid"], []).append((e["time"], e.get("k", 0), vsims.canon(e["inputs"])))
    return out


def merged_trace(rt: dict) -> dict:
    """One global event list from the per-process logs, ordered by the system-wide monotonic
    clock (every cross-process order the monitors rely on is also a happens-before through
    mosaik's sockets, so the stamps are consistent with it)."""
    evs = []
    for sid, lst in rt["remote_events"].items():
        for n, e in enumerate(lst):
            evs.append((e.get("ns", 0), sid, n, e))
    evs.sort(key=lambda x: (x[0], x[1], x[2]))
    out = []
    for _, _, _, e in evs:
        e = dict(e)
        e["i"] = len(out)
        out.append(e)
    kind = rt["outcome"]["kind"]
    return {"events": out, "outcome": rt["outcome"] if kind != "watchdog" else {"kind": "error", "type": "Watchdog", "msg": rt["outcome"].get("msg", "")},
            "logs": rt.get("logs", []), "schedule": [], "branching": [],
            "stats": {"decisions": 0, "max_inflight": 0, "max_inflight_sims": _max_inflight(out), "idle_points": 0,
                      "timer_advances": 0, "vclock": 0.0, "wall_s": rt.get("wall_s", 0)}}


def _max_inflight(events) -> int:
    cur = set()
    mx = 0
    for e in events:
        if e.get("op") == "call" and e.get("kind") == "step":
            cur.add(e["sid"])
            mx = max(mx, len(cur))
        elif e.get("op") == "ret" and e.get("kind") in ("get_data",):
            cur.discard(e["sid"])
        elif e.get("op") == "ret" and e.get("kind") == "step":
            pass
    return mx
