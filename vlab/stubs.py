"""Stub simulators for C15: in-process classes with v1/v2/v3 signatures that record exactly what they are
called with.  No mosaik_api_v3 base class on purpose for the old ones (duck typing like real old simulators)."""
from __future__ import annotations

import copy
from typing import Any, Dict, List

CALLS: List[tuple] = []


EXTRA = ["setup", "done", "set", "up", "step_done", "other"]


def _meta(cfg):
    meta: Dict[str, Any] = {"models": {"M": {"public": True, "params": [], "attrs": ["a", "b"]}}}
    if cfg.get("extra_methods"):
        meta["extra_methods"] = list(EXTRA)
    if cfg.get("version") is not None:
        meta["api_version"] = cfg["version"]
    if cfg.get("type") is not None:
        meta["type"] = cfg["type"]
    return meta


class _Base:
    def __init__(self):
        self.meta = {"models": {}}
        self.mosaik = None
        self.sid = None
        self.n = 0
        self.cfg = None

    def create(self, num, model, **params):
        CALLS.append((self.sid, "create", (num, model), dict(params)))
        return [{"eid": f"e{i}", "type": model} for i in range(num)]

    def get_data(self, outputs):
        CALLS.append((self.sid, "get_data", (copy.deepcopy(outputs),), {}))
        return {eid: {a: f"{self.sid}/{eid}/{a}#{self.n}" for a in attrs} for eid, attrs in outputs.items()}

    def finalize(self):
        CALLS.append((self.sid, "finalize", (), {}))

    def _extra(self, name, *a):
        CALLS.append((self.sid, "extra:" + name, tuple(a), {}))
        return f"{name}:{self.sid}"

    def setup(self, *a): return self._extra("setup", *a)            # noqa: E704
    def done(self, *a): return self._extra("done", *a)              # noqa: E704
    def set(self, *a): return self._extra("set", *a)                # noqa: E704
    def up(self, *a): return self._extra("up", *a)                  # noqa: E704
    def step_done(self, *a): return self._extra("step_done", *a)    # noqa: E704
    def other(self, *a): return self._extra("other", *a)            # noqa: E704

    def _step(self, time, inputs):
        self.n += 1
        f = (self.cfg or {}).get("raise_at")
        if f and f["step"] == self.n - 1:
            raise {"ValueError": ValueError, "TypeError": TypeError, "KeyError": KeyError}[f["exc"]]("injected failure in old simulator")
        return time + 1


class V3Sig(_Base):
    """v3 signatures (time_resolution keyword, max_advance with a default)."""

    def init(self, sid, time_resolution=None, cfg=None, **kw):
        self.sid = sid
        CALLS.append((sid, "init", (sid,), {"time_resolution": time_resolution, **kw}))
        self.cfg = cfg
        self.meta = _meta(cfg or {})
        return self.meta

    def setup_done(self):
        CALLS.append((self.sid, "setup_done", (), {}))

    def step(self, time, inputs, max_advance="<not passed>"):
        CALLS.append((self.sid, "step", (time, copy.deepcopy(inputs), max_advance), {}))
        return self._step(time, inputs)


class V2Sig(_Base):
    """v2 signatures: init without time_resolution, step without max_advance."""

    def init(self, sid, cfg=None, **kw):
        self.sid = sid
        CALLS.append((sid, "init", (sid,), dict(kw)))
        self.cfg = cfg
        self.meta = _meta(cfg or {})
        return self.meta

    def setup_done(self):
        CALLS.append((self.sid, "setup_done", (), {}))

    def step(self, time, inputs):
        CALLS.append((self.sid, "step", (time, copy.deepcopy(inputs)), {}))
        return self._step(time, inputs)


class V2SigStrict(V2Sig):
    """init that takes nothing but sid (a stray time_resolution would be a TypeError)."""

    def init(self, sid, cfg=None):  # type: ignore[override]
        self.sid = sid
        CALLS.append((sid, "init", (sid,), {}))
        self.cfg = cfg
        self.meta = _meta(cfg or {})
        return self.meta


class V1Sig(V2Sig):
    """v1: no setup_done at all."""
    setup_done = None  # type: ignore[assignment]


class HierSim(V3Sig):
    """create() returns a Parent entity with children of two different models (Child first, then Other, which
    has a Child grandchild again), each model with its own attributes."""

    def init(self, sid, time_resolution=None, **kw):
        self.sid = sid
        self.meta = {"api_version": "3.0", "type": "hybrid", "models": {
            "Parent": {"public": True, "params": [], "attrs": ["p_in", "p_out"], "trigger": ["p_in"], "non-persistent": ["p_out"]},
            "Child": {"public": False, "params": [], "attrs": ["c_in", "c_out"], "trigger": ["c_in"], "non-persistent": ["c_out"]},
            "Other": {"public": False, "params": [], "attrs": ["o_in", "o_out"], "trigger": ["o_in"], "non-persistent": ["o_out"]}}}
        return self.meta

    def create(self, num, model, **params):
        return [{"eid": f"p{i}", "type": "Parent", "children": [
            {"eid": f"p{i}c", "type": "Child"},
            {"eid": f"p{i}o", "type": "Other", "children": [{"eid": f"p{i}oc", "type": "Child"}]},
            {"eid": f"p{i}c2", "type": "Child"}]} for i in range(num)]


SHARED_META: Dict[str, Dict[str, Any]] = {}


class SharedMetaV2(V3Sig):
    """Old-API simulator whose instances all return ONE module-level meta dict from init() (very common:
    ``META = {...}`` at module level)."""

    def init(self, sid, time_resolution=None, cfg=None, **kw):
        self.sid = sid
        self.cfg = cfg
        CALLS.append((sid, "init", (sid,), {"time_resolution": time_resolution, **kw}))
        key = str((cfg or {}).get("version"))
        if key not in SHARED_META:
            SHARED_META[key] = _meta(cfg or {})
        self.meta = SHARED_META[key]
        return self.meta


SHARED_MODELS: Dict[str, Dict[str, Any]] = {}


class SharedModels(V3Sig):
    """A simulator class with ONE module-level model table (``MODELS = {...}`` at module level) whose type is
    chosen per instance in init()."""

    def init(self, sid, time_resolution=None, typ=None, **kw):
        self.sid = sid
        self.meta = {"api_version": "3.0", "type": typ, "models": SHARED_MODELS}
        return self.meta


# ---------------------------------------------------------------------------------------------------------
# C14 class 'plain_inprocess': an ordinary mosaik_api_v3.Simulator whose methods are plain functions (NOT
# generator functions like ScriptedSim's), failing at a chosen request with a chosen exception class.
import mosaik_api_v3 as _api

PLAIN_LOG: List[tuple] = []


class PlainSim(_api.Simulator):
    def __init__(self):
        super().__init__({"api_version": "3.0", "type": "hybrid",
                          "models": {"M": {"public": True, "params": [], "attrs": ["o", "i"], "trigger": ["i"],
                                           "non-persistent": ["o"]}}})
        self.nreq = 0
        self.fail_at = None
        self.exc = None

    def init(self, sid, time_resolution=1.0, fail_at=None, exc=None, typ="hybrid"):
        self.sid = sid
        self.fail_at, self.exc = fail_at, exc
        self.meta["type"] = typ
        if typ == "time-based":
            self.meta["models"]["M"] = {"public": True, "params": [], "attrs": ["o", "i"]}
        return self.meta

    def _req(self, kind):
        n = self.nreq
        self.nreq += 1
        PLAIN_LOG.append((self.sid, kind, n))
        if self.fail_at == n:
            import asyncio
            import builtins
            cls = {"CancelledError": asyncio.CancelledError}.get(self.exc) or getattr(builtins, self.exc)
            PLAIN_LOG.append((self.sid, "fault", self.exc))
            raise cls(f"injected failure in {self.sid}.{kind}")

    def create(self, num, model, **p):
        return [{"eid": f"e{i}", "type": model} for i in range(num)]

    def setup_done(self):
        self._req("setup_done")

    def step(self, time, inputs, max_advance):
        self._req("step")
        return time + 1

    def get_data(self, outputs):
        self._req("get_data")
        return {eid: {a: f"{self.sid}@{self.nreq}" for a in attrs} for eid, attrs in outputs.items()}

    def finalize(self):
        PLAIN_LOG.append((self.sid, "finalize", None))
