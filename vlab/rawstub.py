"""Raw-protocol stub simulator for C15: length-prefixed JSON over a socket, no mosaik_api_v3.
``python -m vlab.rawstub HOST:PORT`` connects to mosaik and records every request it receives
(into the file named by init's ``cfg['log']``)."""
import json
import socket
import sys


def recv_exact(s, n):
    buf = b""
    while len(buf) < n:
        chunk = s.recv(n - len(buf))
        if not chunk:
            raise EOFError
        buf += chunk
    return buf


def main():
    host, port = sys.argv[1].split(":")
    s = socket.create_connection((host, int(port)))
    log = None
    cfg = {}
    sid = None
    n = 0
    try:
        while True:
            try:
                ln = int.from_bytes(recv_exact(s, 4), "big")
            except EOFError:
                break
            mtype, mid, content = json.loads(recv_exact(s, ln).decode())
            func, args, kwargs = content
            if func == "init":
                cfg = kwargs.get("cfg", {})
                sid = args[0]
                log = open(cfg["log"], "a", buffering=1)
            if log:
                log.write(json.dumps({"sid": sid, "func": func, "args": args, "kwargs": kwargs}) + "\n")
            if func == "init":
                meta = {"models": {"M": {"public": True, "params": [], "attrs": ["a", "b"]}}}
                if cfg.get("version") is not None:
                    meta["api_version"] = cfg["version"]
                if cfg.get("type") is not None:
                    meta["type"] = cfg["type"]
                ret = meta
            elif func == "create":
                ret = [{"eid": f"e{i}", "type": args[1]} for i in range(args[0])]
            elif func == "setup_done":
                ret = None
            elif func == "step":
                n += 1
                ret = args[0] + 1
            elif func == "get_data":
                ret = {eid: {a: f"{sid}/{eid}/{a}#{n}" for a in attrs} for eid, attrs in args[0].items()}
            elif func == "stop":
                break
            else:
                ret = None
            body = json.dumps([1, mid, ret]).encode()
            s.sendall(len(body).to_bytes(4, "big") + body)
    finally:
        s.close()
        if log:
            log.close()


if __name__ == "__main__":
    main()
