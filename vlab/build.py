"""Build a real ``mosaik.World`` from a scenario JSON and run it under the
controlled loop.  Returns a *trace* (plain dict, JSON-able)."""
from __future__ import annotations

import asyncio
import contextlib
import gc
import io
import logging
import random
import sys
import time as _time
import traceback
import warnings
from typing import Any, Dict, List, Optional

from . import loop as vloop
from . import sims as vsims


def _quiet_logging():
    from loguru import logger
    logger.remove()
    logging.getLogger("asyncio").setLevel(logging.CRITICAL)


_LOG_READY = False
LOGS: List[dict] = []


def setup_logging():
    global _LOG_READY
    if _LOG_READY:
        return
    _quiet_logging()
    from loguru import logger

    def sink(msg):
        r = msg.record
        LOGS.append({"level": r["level"].name, "msg": r["message"][:400], "i": len(vsims.REC.events)})

    logger.add(sink, level="WARNING")
    _LOG_READY = True


def make_policy(cfg: dict, sids: List[str], rng: random.Random) -> vloop.Policy:
    name = cfg.get("policy", "random")
    if name == "random":
        return vloop.RandomPolicy(rng, cfg.get("batch_p", 0.0))
    if name in ("fifo", "atomic"):
        return vloop.FifoPolicy()
    if name == "lifo":
        return vloop.LifoPolicy()
    if name == "all":
        return vloop.AllPolicy()
    if name == "prio":
        order = cfg.get("order") or rng.sample(sids, len(sids))
        cfg["order"] = order
        return vloop.PrioPolicy(order)
    if name == "pct":
        return vloop.PCTPolicy(rng, sids, cfg.get("d", 2), cfg.get("horizon", 60))
    if name == "starve":
        st = cfg.get("starved") or [rng.choice(sids)]
        cfg["starved"] = st
        return vloop.StarvePolicy(rng, st)
    if name == "replay":
        return vloop.ReplayPolicy(cfg["schedule"])
    raise ValueError(name)


def start_order(scn: dict) -> List[str]:
    """Start order realisable through the public ``with world.group()`` API:
    a traversal of the group tree; children order given by config 'order_key'
    (a seed) or declaration order."""
    return [s["sid"] for s in _traverse(scn)]


def _traverse(scn: dict):
    seed = scn.get("config", {}).get("order_seed")
    sims = scn["sims"]

    def children(prefix):
        items = []
        seen = set()
        for s in sims:
            p = tuple(s.get("path", []))
            if p[:len(prefix)] != tuple(prefix):
                continue
            if len(p) == len(prefix):
                items.append(("sim", s))
            else:
                g = p[:len(prefix) + 1]
                if g not in seen:
                    seen.add(g)
                    items.append(("group", g))
        if seed is not None:
            random.Random(vsims.H(seed, list(prefix))).shuffle(items)
        return items

    def walk(prefix):
        for kind, it in children(prefix):
            if kind == "sim":
                yield ("sim", it, tuple(prefix))
            else:
                yield ("enter", it, tuple(prefix))
                yield from walk(it)
                yield ("exit", it, tuple(prefix))

    return [x[1] for x in walk(()) if x[0] == "sim"]


def build_world(scn: dict, loop: Optional[asyncio.AbstractEventLoop], transport: str = "local",
                remote_dir: Optional[str] = None):
    """Create the world, start simulators (respecting groups), create entities
    and connect.  Returns (world, entities, connect_results)."""
    import mosaik
    cfg = scn.get("config", {})
    sim_config: Dict[str, Any] = {"S": {"python": "vlab.sims:ScriptedSim"}}
    if transport != "local":
        sim_config["R"] = {
            "cmd": "%(python)s -m vlab.simproc %(addr)s",
            "env": {"PYTHONPATH": ":".join(p for p in sys.path if p)},
        }
    kw: Dict[str, Any] = dict(
        debug=bool(cfg.get("debug", False)),
        cache=bool(cfg.get("cache", True)),
        max_loop_iterations=100 if cfg.get("mli_late") else cfg.get("max_loop_iterations", 100),
        skip_greetings=True,
    )
    if "time_resolution" in cfg:
        kw["time_resolution"] = cfg["time_resolution"]
    if loop is not None:
        kw["asyncio_loop"] = loop
    mcfg = cfg.get("mosaik_config")
    world = mosaik.World(sim_config, mcfg, **kw) if mcfg else mosaik.World(sim_config, **kw)

    weak_out: Dict[str, List[List[str]]] = {}
    for c in scn.get("conns", []):
        if c.get("weak"):
            weak_out.setdefault(c["src"], []).append([c["se"], c["sa"]])

    factories: Dict[str, Any] = {}
    seed = cfg.get("order_seed")
    sims = scn["sims"]
    remote_set = set(cfg.get("remote_sims", [])) if transport != "local" else set()

    def children(prefix):
        items = []
        seen = set()
        for s in sims:
            p = tuple(s.get("path", []))
            if p[:len(prefix)] != tuple(prefix):
                continue
            if len(p) == len(prefix):
                items.append(("sim", s))
            else:
                g = p[:len(prefix) + 1]
                if g not in seen:
                    seen.add(g)
                    items.append(("group", g))
        if seed is not None:
            random.Random(vsims.H(seed, list(prefix))).shuffle(items)
        return items

    def walk(prefix):
        for kind, it in children(prefix):
            if kind == "sim":
                spec = dict(it)
                spec["weak_out"] = weak_out.get(it["sid"], [])
                spec["until"] = scn.get("until")
                name = "S"
                if it["sid"] in remote_set:
                    name = "R"
                    spec["remote"] = {
                        "log": f"{remote_dir}/{it['sid']}.jsonl",
                        "max_sleep": cfg.get("remote_max_sleep", 0.0),
                        "sleep_seed": vsims.H(cfg.get("sleep_seed", 0), it["sid"]) % (2 ** 31),
                    }
                factories[it["sid"]] = world.start(name, sim_id=it["sid"], spec=spec)
            else:
                with world.group():
                    walk(it)

    walk(())

    ents: Dict[str, Dict[str, Any]] = {}
    for s in sims:
        em = s.get("ent_model", {})
        all_e = s.get("entities", ["e0"])
        ents[s["sid"]] = {}
        for mname in ("M", "N"):
            n = len([e for e in all_e if em.get(e, "M") == mname])
            if n:
                created = getattr(factories[s["sid"]], mname).create(n)
                ents[s["sid"]].update({e.eid: e for e in created})

    results = []
    conn_list = list(scn.get("conns", []))
    merged_into: Dict[int, int] = {}
    if cfg.get("merge_connects"):
        # several attribute pairs of the same entity pair with the same flags go into ONE connect() call
        groups: Dict[tuple, List[int]] = {}
        for n, c in enumerate(conn_list):
            if "sa" not in c:
                continue
            key = (c["src"], c["se"], c["dst"], c["de"], c.get("shift"), bool(c.get("shift_int")), bool(c.get("weak")),
                   bool(c.get("async")))
            groups.setdefault(key, []).append(n)
        for key, idxs in groups.items():
            # initial data is keyed by source attribute: only merge if that stays unambiguous
            sas = [conn_list[n]["sa"] for n in idxs]
            if len(idxs) > 1 and len(set(sas)) == len(sas):
                for n in idxs[1:]:
                    merged_into[n] = idxs[0]
    extra_pairs: Dict[int, List[dict]] = {}
    for n, first in merged_into.items():
        extra_pairs.setdefault(first, []).append(conn_list[n])
    for n, c in enumerate(conn_list):
        if n in merged_into:
            results.append(("merged", None))
            continue
        kwargs: Dict[str, Any] = {}
        if c.get("shift"):
            kwargs["time_shifted"] = c["shift"] if c["shift"] != 1 or c.get("shift_int") else True
        if c.get("weak"):
            kwargs["weak"] = True
        if "init" in c:
            kwargs["initial_data"] = {c["sa"]: c["init"]}
        if c.get("async"):
            kwargs["async_requests"] = True
        pair = (c["sa"], c["da"]) if "sa" in c else None
        more = []
        for c2 in extra_pairs.get(n, []):
            more.append((c2["sa"], c2["da"]))
            if "init" in c2:
                kwargs.setdefault("initial_data", {})[c2["sa"]] = c2["init"]
        try:
            with warnings.catch_warnings():
                warnings.simplefilter("ignore")
                if pair and not more and cfg.get("connect_one") and not c.get("async"):
                    kw1 = {k_: v_ for k_, v_ in kwargs.items() if k_ in ("time_shifted", "weak")}
                    if "init" in c:
                        kw1["initial_data"] = c["init"]
                    world.connect_one(ents[c["src"]][c["se"]], ents[c["dst"]][c["de"]], pair[0], pair[1], **kw1)
                elif pair:
                    world.connect(ents[c["src"]][c["se"]], ents[c["dst"]][c["de"]], pair, *more, **kwargs)
                else:
                    world.connect(ents[c["src"]][c["se"]], ents[c["dst"]][c["de"]], **kwargs)
            results.append(("ok", None))
        except Exception as e:  # ScenarioError expected for invalid ones
            results.append((type(e).__name__, str(e)[:300]))
    for s in sims:
        if s.get("initial_event") is not None:
            world.set_initial_event(s["sid"], s["initial_event"])
    if cfg.get("mli_late"):
        # the documented public attribute, assigned after the simulators have been started
        world.max_loop_iterations = cfg.get("max_loop_iterations", 100)
    return world, ents, results


def run_case(scn: dict, sched: Optional[dict] = None, want_world: bool = False) -> dict:
    """Run one scenario once in-process under the controlled loop.

    sched: {"policy":..., "seed":..., "pre_yields": n, "atomic": bool,
            "max_decisions":..., "spin_budget":...}
    """
    setup_logging()
    sched = dict(sched or {})
    rng = random.Random(sched.get("seed", 0))
    sids = [s["sid"] for s in scn["sims"]]
    rec = vsims.Recorder()
    vsims.set_recorder(rec)
    del LOGS[:]
    atomic = bool(sched.get("atomic"))
    policy = make_policy(sched, sids, rng)
    ctl = vloop.Controller(policy, max_decisions=sched.get("max_decisions", 20000),
                           spin_budget=sched.get("spin_budget", 20000))
    loop = vloop.VLoop(ctl)
    unhandled: List[str] = []
    if sched.get("keep_tasks"):
        loop.set_exception_handler(lambda lp, ctx: unhandled.append(
            (str(ctx.get("message", "")) + " " + repr(ctx.get("exception", "")))[:240]))
    if not atomic:
        rec.ctl = ctl
    else:
        rec.ctl = None
    rec.ctl_for_clock = ctl
    if sched.get("atomic_frac"):
        # a random subset of the simulators answers synchronously (mixed in-process / remote-like latencies)
        r2 = random.Random(vsims.H(sched.get("seed", 0), "atomic_sims"))
        sched["atomic_sims"] = [s for s in sids if r2.random() < sched["atomic_frac"]]
    rec.atomic_sims = set(sched.get("atomic_sims", []))
    rec.max_pre_yields = sched.get("pre_yields", 0)
    if scn.get("config", {}).get("rt_factor") is not None or sched.get("record_vt"):
        rec.clock = ctl.clock
    rec.lat_rng = random.Random(vsims.H(sched.get("seed", 0), "lat"))

    import mosaik.scheduler as msched
    orig_pc = msched.perf_counter
    msched.perf_counter = ctl.clock
    cfg = scn.get("config", {})
    trace: Dict[str, Any] = {"outcome": None}
    world = None
    t0 = _time.perf_counter()
    pywarn: List[str] = []
    try:
        with warnings.catch_warnings(record=True) as wlist:
            warnings.simplefilter("always")
            try:
                world, ents, conn_results = build_world(scn, loop)
                trace["connect"] = conn_results
                rec.world = world
                trace["n_setup"] = len(rec.events)
                bad = [r for r in conn_results if r[0] not in ("ok", "merged")]
                if bad and not scn.get("allow_connect_errors"):
                    trace["outcome"] = {"kind": "connect_error", "detail": bad[:3]}
                else:
                    rkw: Dict[str, Any] = dict(until=scn["until"], print_progress=False,
                                               lazy_stepping=bool(cfg.get("lazy", True)))
                    if cfg.get("rt_factor") is not None:
                        rkw["rt_factor"] = cfg["rt_factor"]
                        rkw["rt_strict"] = bool(cfg.get("rt_strict", False))
                    # external events (C17): set_event(t) called on the simulator's mosaik proxy at a
                    # virtual instant tau after the start of run()
                    for inj in scn.get("inject_events", []):
                        def fire(inj=inj):
                            simobj = rec.instances[inj["sid"]]
                            rec.ev(op="inject", kind="set_event", sid=inj["sid"], t=inj["t"], tau=inj["tau"])

                            async def call():
                                try:
                                    await simobj.mosaik.set_event(inj["t"])
                                    rec.ev(op="inject_ret", sid=inj["sid"], t=inj["t"], ok=True)
                                except Exception as e:  # noqa: BLE001
                                    rec.ev(op="inject_ret", sid=inj["sid"], t=inj["t"], ok=False,
                                           err=f"{type(e).__name__}: {e}"[:200])
                            loop.create_task(call())
                        loop.call_at(inj["tau"], fire)
                    try:
                        world.run(**rkw)
                    except Exception as e1:  # noqa: BLE001
                        if sched.get("run_again_after_scenario_error") and type(e1).__name__ == "ScenarioError":
                            # C06: the same world, run() called a second time after the rejection
                            trace["second_run_events_from"] = len(rec.events)
                            try:
                                world.run(**rkw)
                                trace["second_outcome"] = {"kind": "ok"}
                            except BaseException as e2:  # noqa: BLE001
                                trace["second_outcome"] = {"kind": "error", "type": type(e2).__name__, "msg": str(e2)[:300]}
                        raise
                    trace["outcome"] = {"kind": "ok"}
            except BaseException as e:  # noqa: BLE001
                if isinstance(e, (KeyboardInterrupt,)):
                    raise
                tb = traceback.extract_tb(e.__traceback__)
                where = [f"{f.filename.split('/')[-1]}:{f.lineno}:{f.name}" for f in tb[-4:]]
                trace["outcome"] = {"kind": "error", "type": type(e).__name__,
                                    "msg": str(e)[:500], "where": where}
            pywarn = [f"{w.category.__name__}: {str(w.message)[:200]}" for w in wlist]
    finally:
        msched.perf_counter = orig_pc
        ctl.finished = True
        try:
            if world is not None and not world.loop.is_closed():
                if not sched.get("keep_tasks"):
                    for t in asyncio.all_tasks(loop):
                        t.cancel()
                world.shutdown()
            elif world is None and not loop.is_closed():
                loop.close()
        except BaseException as e:  # noqa: BLE001
            trace["shutdown_error"] = f"{type(e).__name__}: {e}"[:300]
            try:
                loop.close()
            except Exception:
                pass
        try:
            import mosaik._debug as dbg
            dbg.disable()
        except Exception:
            pass
    if sched.get("keep_tasks"):
        # C14: what mosaik itself left behind (nothing was cancelled by the harness)
        import gc
        gc.collect()
        trace["pending_at_close"] = list(getattr(loop, "pending_at_close", None) or [])
        trace["loop_closed"] = loop.is_closed()
        trace["loop_unhandled"] = list(unhandled)
    trace["events"] = rec.events
    trace["logs"] = list(LOGS)
    trace["pywarnings"] = pywarn
    trace["schedule"] = ctl.schedule
    trace["branching"] = ctl.branching
    trace["stats"] = {
        "decisions": ctl.decisions, "max_inflight": ctl.max_inflight,
        "max_inflight_sims": ctl.max_inflight_sims, "idle_points": ctl.idle_points,
        "timer_advances": ctl.timer_advances, "vclock": ctl.now,
        "wall_s": round(_time.perf_counter() - t0, 4),
    }
    trace["sched"] = {k: v for k, v in sched.items()}
    if want_world:
        trace["_world"] = world
    return trace
