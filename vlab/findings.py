"""Known findings: committed file ``/verif/known_findings.json``; never written
at run time.  An *open* entry is keyed by mechanism: a predicate over the
witness of a violation (never a seed, a hash or a concrete value).  A violation
matched by an open entry is reported as ``KNOWN-FINDING`` and does not fail the
check; everything else still does.  ``fixed`` entries suppress nothing."""
from __future__ import annotations

import json
import os
import re
from typing import Any, Dict, List, Optional

HERE = os.path.dirname(os.path.dirname(os.path.abspath(__file__)))
PATH = os.path.join(HERE, "known_findings.json")


def load() -> List[dict]:
    with open(PATH) as f:
        data = json.load(f)
    return data["findings"]


# ---- mechanism predicates ---------------------------------------------------

def m_subtime_data_path(v: dict) -> bool:
    """C03: every differing input slot of the step is explained by the data
    path being keyed by main time only: a value was handed to a step of the
    consumer whose sub-time is earlier than the value's due sub-time at the
    same main time (and is consequently missing at its due step)."""
    if v.get("kind") != "inputs_differ":
        return False
    diffs = v.get("diffs") or []
    return bool(diffs) and all(d.get("mech") == "subtime_early" for d in diffs)


def m_subtime_divergence(v: dict) -> bool:
    """C04: two runs of one scenario differ, and in both runs the first
    differing step (by label) of the simulator is reached through the
    sub-time data path mechanism of C03 (tag computed by the C04 oracle from
    the C03 analysis of both runs)."""
    return v.get("kind") == "sequences_differ" and v.get("mech") == "subtime_early"


_IV = re.compile(r"^([0-9:]*)\|([0-9:]*)\((\d+)\)$")


def _parse_interval(txt: str):
    mt = _IV.match(txt.strip())
    if not mt:
        return None
    add = tuple(int(x) for x in mt.group(1).split(":") if x != "")
    ext = tuple(int(x) for x in mt.group(2).split(":") if x != "")
    return (int(mt.group(3)), len(add), add + ext)


def m_incomparable_delays(v: dict) -> bool:
    """C05/C06: run() dies with the tiered-time 'incomparable' assertion while
    computing minimal delays (paths that leave and re-enter a group) -- and the two
    delays named in the message really are incomparable as functions on time tuples
    (a tier that one adds to and the other sets, ordered differently for different
    departure times).  An 'incomparable' assertion for delays that ARE pointwise
    ordered is a different defect and is not matched."""
    if not (v.get("kind") in ("run_failed", "crash_instead_of_accept", "crash_instead_of_reject")
            and v.get("type") == "AssertionError" and "incomparable" in (v.get("msg") or "")):
        return False
    mt = re.match(r"^(\S+) and (\S+) are incomparable", v.get("msg") or "")
    if not mt:
        return False
    a, b = _parse_interval(mt.group(1)), _parse_interval(mt.group(2))
    if a is None or b is None or a[0] != b[0] or len(a[2]) != len(b[2]) or a[1] == b[1]:
        return False
    from .checks.c08 import model_rel
    le, ge = model_rel(a, b, max(a[2] + b[2] + (0,)) + 2)
    return not le and not ge


def m_async_substep_deadlock(v: dict) -> bool:
    """C05: exact deadlock in a scenario where an async_requests connection starts at a simulator that
    can perform sub-steps (it lives inside a group in which a weak connection generates sub-time) and
    shares a group with the agent, and the
    very same scenario under the same schedule policy completes once the async_requests flags are
    removed (the wait for async successors includes the sub-time and closes a wait cycle through a
    simulator outside the group)."""
    return (v.get("kind") == "run_failed" and v.get("type") == "Deadlock"
            and v.get("async_source_with_substeps_in_shared_group") is True
            and v.get("completes_without_async_flags") is True)


def m_rt_consumer_late(v: dict) -> bool:
    """C17: 'too slow' is reported for a simulator that has a zero-delay predecessor while every
    simulator answers instantly (the predecessor's progress is capped by the real-time cap), for every
    report of the run, and no report is later than one slot per simulator in the reported simulator's
    chain of zero-delay predecessors.  Anything later, or a report for a simulator without predecessor,
    is not matched."""
    ex = v.get("lateness_beyond_one_slot_per_predecessor")
    return (v.get("kind") == "too_slow_reported_with_instant_simulators"
            and v.get("reported_simulator_has_zero_delay_predecessor") is True
            and ex is not None and ex <= 1e-9)


def m_remote_reset_while_idle(v: dict) -> bool:
    """C14: run() hangs after a remote simulator process died while NO request was outstanding, and the
    witness (where every task waits when the watchdog fires) shows a RemoteProxy request handler still
    waiting on a channel whose reader task has ended: the channel (mosaik_api_v3.connection.Channel, outside
    the repository) lost its connection with an error other than IncompleteReadError (connection reset) and
    signalled nothing.  A hang after any other fault kind, or with every channel reader alive, is not matched."""
    return (v.get("kind") == "run_hangs_after_fault" and (v.get("fault") or {}).get("how") == "exit_idle"
            and (v.get("request_handlers_whose_channel_reader_is_gone") or 0) >= 1)


MECHANISMS = {
    "remote_reset_while_idle": m_remote_reset_while_idle,
    "async_substep_deadlock": m_async_substep_deadlock,
    "rt_consumer_late": m_rt_consumer_late,
    "subtime_data_path": m_subtime_data_path,
    "subtime_divergence": m_subtime_divergence,
    "incomparable_delays": m_incomparable_delays,
}


def match(prop: str, v: dict, entries: Optional[List[dict]] = None) -> Optional[dict]:
    for e in entries if entries is not None else load():
        if e.get("status") != "open" or prop not in e.get("properties", []):
            continue
        fn = MECHANISMS.get(e.get("mechanism", ""))
        if fn is not None and fn(v):
            return e
    return None
