"""Check driver: ``./check <ID> [--tier quick|thorough] [--replay PATH]``.

Spawns worker *subprocesses* (not multiprocessing.Pool: a dying child must not
hang the check), each runs a slice of the case index space of the property's
check module (``vlab/checks/<id>.py``) against ``/repo``'s current working
tree, merges the partial results, matches violations against the committed
known-findings file, writes ``evidence/<ID>.json`` and prints the verdict.

exit 0 = held on everything explored (KNOWN-FINDING lines possible),
exit 1 = ``VIOLATION property=<id> replay=<path>``,
exit 2 = INCONCLUSIVE (deciding monitor not reached / workers died).
"""
from __future__ import annotations

import argparse
import importlib
import json
import os
import subprocess
import sys
import time
from collections import Counter
from typing import Any, Dict, List

HERE = os.path.dirname(os.path.dirname(os.path.abspath(__file__)))
REPO = os.environ.get("VERIF_REPO", "/repo")
PY = os.environ.get("VERIF_PY", "/venv/bin/python")
NWORKERS = int(os.environ.get("VERIF_WORKERS", "16"))


def env_for_workers() -> Dict[str, str]:
    env = dict(os.environ)
    env["PYTHONPATH"] = f"{REPO}:{HERE}"
    env["PYTHONHASHSEED"] = "0"
    env["PYTHONDONTWRITEBYTECODE"] = "1"
    env["MOSAIK_VERIF"] = "1"
    return env


def load_check(pid: str):
    return importlib.import_module(f"vlab.checks.{pid.lower()}")


def run_workers(pid: str, job: dict, outdir: str, timeout_s: float) -> List[dict]:
    os.makedirs(outdir, exist_ok=True)
    n = job.get("nworkers", NWORKERS)
    procs = []
    for w in range(n):
        j = dict(job)
        j["windex"] = w
        j["nworkers"] = n
        jf = os.path.join(outdir, f"job-{pid}-{w}.json")
        of = os.path.join(outdir, f"res-{pid}-{w}.json")
        if os.path.exists(of):
            os.remove(of)
        with open(jf, "w") as f:
            json.dump(j, f)
        errf = open(os.path.join(outdir, f"err-{pid}-{w}.log"), "w")
        p = subprocess.Popen([PY, "-m", "vlab.worker", pid, jf, of], cwd=HERE,
                             env=env_for_workers(), stdout=errf, stderr=errf)
        procs.append((w, p, of, errf))
    results = []
    deadline = time.time() + timeout_s
    for w, p, of, errf in procs:
        try:
            p.wait(timeout=max(1.0, deadline - time.time()))
        except subprocess.TimeoutExpired:
            p.kill()
            p.wait()
        errf.close()
        if os.path.exists(of):
            try:
                with open(of) as f:
                    results.append(json.load(f))
                continue
            except Exception:
                pass
        results.append({"worker_failed": True, "windex": w, "rc": p.returncode})
    return results


def merge(results: List[dict]) -> dict:
    out: Dict[str, Any] = {"evaluations": 0, "counters": Counter(), "hashes": set(),
                           "violations": [], "samples": [], "failed_workers": [],
                           "aborted": 0, "extra": {}, "exhausted": [], "reach": []}
    for r in results:
        if r.get("worker_failed"):
            out["failed_workers"].append({"windex": r.get("windex"), "rc": r.get("rc")})
            continue
        out["evaluations"] += r.get("evaluations", 0)
        out["aborted"] += r.get("aborted", 0)
        out["counters"].update(r.get("counters", {}))
        out["hashes"].update(r.get("hashes", []))
        out["violations"].extend(r.get("violations", []))
        for s in r.get("samples", []):
            if len(out["samples"]) < 6:
                out["samples"].append(s)
        for k, v in r.get("extra", {}).items():
            out["extra"].setdefault(k, []).append(v)
        out["exhausted"].extend(r.get("exhausted", []))
        if r.get("reach"):
            out["reach"].append(r["reach"])
    return out


def main(argv=None):
    ap = argparse.ArgumentParser()
    ap.add_argument("pid")
    ap.add_argument("--tier", default=os.environ.get("VERIF_TIER", "quick"))
    ap.add_argument("--replay")
    ap.add_argument("--seed", type=int, default=None)
    ap.add_argument("--scale", type=float, default=float(os.environ.get("VERIF_SCALE", "1")))
    args = ap.parse_args(argv)
    pid = args.pid.upper()
    seed = args.seed if args.seed is not None else int(os.environ.get("VERIF_SEED", "0"))
    sys.path.insert(0, REPO)
    sys.path.insert(0, HERE)
    os.environ.setdefault("PYTHONHASHSEED", "0")
    chk = load_check(pid)
    from vlab import findings

    if args.replay:
        os.environ["PYTHONPATH"] = f"{REPO}:{HERE}"
        with open(args.replay) as f:
            rep = json.load(f)
        viol = chk.replay(rep)
        entries = findings.load()
        bad = [v for v in viol if findings.match(pid, v, entries) is None]
        for v in viol:
            e = findings.match(pid, v, entries)
            if e is not None:
                print(f"KNOWN-FINDING: property={pid} {e['what']}")
        if bad:
            print(json.dumps(bad[0], default=str)[:2000])
            print(f"VIOLATION property={pid} replay={args.replay}")
            return 1
        print(f"replay: no violation of {pid} reproduced")
        return 0

    t0 = time.time()
    job = chk.plan(args.tier, seed, args.scale)
    job["tier"] = args.tier
    job["seed"] = seed
    outdir = os.path.join(os.environ.get("VERIF_OUT_DIR") or os.path.join(HERE, "out"), "work")
    results = run_workers(pid, job, outdir, job.get("timeout_s", 3000))
    m = merge(results)
    entries = findings.load()
    known: Dict[str, int] = Counter()
    known_what: Dict[str, str] = {}
    unlisted = []
    for v in m["violations"]:
        e = findings.match(pid, v["v"], entries)
        if e is not None:
            known[e["id"]] += 1
            known_what[e["id"]] = e["what"]
        else:
            unlisted.append(v)
    # counts of violations beyond the per-worker cap are in counters
    verdict, reasons = chk.decide(m, args.tier)
    replay_paths = []
    if unlisted:
        rdir = os.path.join(os.environ.get("VERIF_OUT_DIR") or os.path.join(HERE, "out"), "replays")
        os.makedirs(rdir, exist_ok=True)
        for k, v in enumerate(unlisted[:5]):
            pth = os.path.join(rdir, f"{pid}-seed{seed}-{args.tier}-{k}.json")
            with open(pth, "w") as f:
                json.dump({"property": pid, "violation": v["v"], "replay": v.get("replay")}, f, default=str)
            replay_paths.append(pth)
    wall = time.time() - t0
    ev = chk.evidence(m, args.tier, seed)
    cov = ev["coverage"]
    cov.setdefault("evaluations", m["evaluations"])
    cov.setdefault("distinct_nontrivial", len(m["hashes"]))
    cov.setdefault("samples", m["samples"][:4] or [{"note": "no sample recorded"}])
    cov["counters"] = {k: v for k, v in sorted(m["counters"].items())}
    if m["counters"].get("remote_runs") and "remote" not in cov.get("rule", ""):
        cov["remote_sample_note"] = ("counter remote_runs: the same generated scenarios with every simulator as a real "
                                     "process over TCP (real random sleeps); the same oracle judges the event list "
                                     "merged by the system-wide monotonic clock")
    if m["counters"].get("dfs_scenarios") and "dfs" not in cov.get("rule", "").lower():
        cov["dfs_note"] = ("counters dfs_*: small scenarios (2-3 simulators, until <= 3) under a stateless DFS over every "
                           "order in which in-flight replies can complete at quiescent points of the loop (capped per "
                           "scenario; dfs_scenarios_exhausted = schedule space enumerated completely); every schedule is "
                           "judged by the same oracle")
    try:
        from vlab import reach
        anchors = []
        with open(os.path.join(HERE, "properties.jsonl")) as f:
            for line in f:
                pr = json.loads(line)
                if pr["id"] == pid:
                    anchors = pr.get("anchors", {}).get("files", [])
        cov["code_reach"] = reach.summarize(REPO, m["reach"], anchors)
    except Exception as ex:  # noqa: BLE001  (evidence about the workload only; never decides)
        cov["code_reach"] = {"note": f"not available: {type(ex).__name__}: {ex}"}
    cov["known_findings_matched"] = dict(known)
    cov["unlisted_violations"] = len(unlisted)
    cov["failed_workers"] = m["failed_workers"]
    cov["verdict"] = "violated" if unlisted else verdict
    cov["inconclusive_reasons"] = reasons
    doc = {
        "property_id": pid, "tier": args.tier, "seed": seed, "level": ev["level"],
        "coverage": cov, "assumptions": ev.get("assumptions", []),
        "wall_s": round(wall, 2), "violations": len(unlisted),
    }
    evdir = os.environ.get("VERIF_EVIDENCE_DIR") or os.path.join(HERE, "evidence")
    os.makedirs(evdir, exist_ok=True)
    with open(os.path.join(evdir, f"{pid}.json"), "w") as f:
        json.dump(doc, f, indent=1, default=str)
    print(f"[{pid}] tier={args.tier} seed={seed} evaluations={cov['evaluations']} "
          f"distinct_nontrivial={cov['distinct_nontrivial']} wall={wall:.1f}s")
    for k in chk.HEADLINE if hasattr(chk, "HEADLINE") else []:
        print(f"   {k} = {m['counters'].get(k, 0)}")
    for kid, n in known.items():
        n = max(n, m["counters"].get("known_" + kid, 0))
        print(f"KNOWN-FINDING: property={pid} {known_what[kid]} [{kid}; {n} witnesses this run]")
    if unlisted:
        print(json.dumps(unlisted[0]["v"], default=str)[:1500])
        for pth in replay_paths[:1]:
            print(f"VIOLATION property={pid} replay={pth}")
        return 1
    if m["failed_workers"]:
        reasons.append(f"{len(m['failed_workers'])} worker(s) died or timed out")
        verdict = "inconclusive"
    if verdict == "inconclusive":
        print(f"INCONCLUSIVE property={pid} reason={'; '.join(reasons)}")
        return 2
    print(f"HELD property={pid} on everything explored")
    return 0


if __name__ == "__main__":
    sys.exit(main())
