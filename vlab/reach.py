"""Code-reach observer: which statements and which branch arms of the repository's ``mosaik`` package
the workload of a check actually executed.

A runtime monitor decides nothing about code its workload never drives.  This module makes that
visible: every worker registers a ``sys.monitoring`` tool (no source change, CPython >= 3.12)

* ``LINE`` events, globally, each location disabled after its first hit (cost: one callback per
  statement ever executed), and
* ``BRANCH`` events, only on the code objects that belong to ``<repo>/mosaik/*.py`` (local events;
  not disabled, because ``DISABLE`` works per instruction and would hide the second arm),

and returns ``{file: [lines]}`` and ``{file: [[line_of_branch, offset_of_target], ...]}``.  The driver
merges the workers' sets, compares them with the statements that *exist* (``co_lines()`` of every
code object compiled from the file as it is in the working tree now) and writes
``coverage.code_reach`` into the evidence: per anchored file the reached/existing statement counts, the
unreached line ranges, and the conditional statements of which only one arm was ever taken.
It is evidence about the workload, never a verdict.
"""
from __future__ import annotations

import os
import sys
from typing import Dict, List, Set, Tuple

_TOOL = None


def _mosaik_dir(repo: str) -> str:
    return os.path.join(os.path.realpath(repo), "mosaik") + os.sep


def start(repo: str):
    """Begin observing; returns a handle for :func:`collect`.  No-op (returns None) before 3.12."""
    global _TOOL
    mon = getattr(sys, "monitoring", None)
    if mon is None or os.environ.get("VERIF_REACH", "1") == "0":
        return None
    prefix = _mosaik_dir(repo)
    tool = mon.COVERAGE_ID
    try:
        mon.use_tool_id(tool, "vlab-reach")
    except ValueError:
        return None
    _TOOL = tool
    lines: Dict[str, Set[int]] = {}
    arms: Dict[str, Set[Tuple[int, int]]] = {}
    armed: Set[int] = set()
    off2line: Dict[int, Dict[int, int]] = {}
    DISABLE = mon.DISABLE
    want_branches = os.environ.get("VERIF_REACH_BRANCHES", "1") != "0"

    def real(fn: str) -> str:
        return os.path.realpath(fn) if not fn.startswith(prefix) else fn

    def on_line(code, line):
        fn = code.co_filename
        if not fn.startswith(prefix):
            fn = real(fn)
            if not fn.startswith(prefix):
                return DISABLE
        lines.setdefault(fn[len(prefix):], set()).add(line)
        return DISABLE

    def on_start(code, offset):
        # arm BRANCH events for mosaik code objects the first time they run
        fn = code.co_filename
        if fn.startswith(prefix) or real(fn).startswith(prefix):
            cid = id(code)
            if cid not in armed:
                armed.add(cid)
                _keep.append(code)
                try:
                    mon.set_local_events(tool, code, mon.events.BRANCH)
                except Exception:  # noqa: BLE001
                    pass
        return DISABLE

    def on_branch(code, src, dst):
        cid = id(code)
        m = off2line.get(cid)
        if m is None:
            m = {}
            last = None
            for s, e, ln in code.co_lines():
                if ln is not None:
                    last = ln
                for o in range(s, e, 2):
                    m[o] = last
            off2line[cid] = m
        fn = real(code.co_filename)
        # an arm is identified by the line of the branch instruction and the *offset* it continued at (both arms of
        # a one-line conditional are on the same line)
        arms.setdefault(fn[len(prefix):], set()).add((m.get(src) or 0, dst))

    _keep: List = []
    mon.register_callback(tool, mon.events.LINE, on_line)
    ev = mon.events.LINE
    if want_branches:
        mon.register_callback(tool, mon.events.PY_START, on_start)
        mon.register_callback(tool, mon.events.BRANCH, on_branch)
        ev |= mon.events.PY_START
    mon.set_events(tool, ev)
    return {"lines": lines, "arms": arms, "tool": tool}


def collect(h) -> dict:
    if h is None:
        return {}
    mon = sys.monitoring
    try:
        mon.set_events(h["tool"], 0)
    except Exception:  # noqa: BLE001
        pass
    return {"lines": {f: sorted(v) for f, v in h["lines"].items()},
            "arms": {f: sorted([list(a) for a in v]) for f, v in h["arms"].items()}}


# ------------------------------------------------------------------ driver side

def existing(repo: str) -> Dict[str, dict]:
    """Statements and conditional branch sites that exist in <repo>/mosaik/*.py right now."""
    import dis
    out: Dict[str, dict] = {}
    d = _mosaik_dir(repo)
    for name in sorted(os.listdir(d)):
        if not name.endswith(".py"):
            continue
        path = os.path.join(d, name)
        try:
            with open(path) as f:
                top = compile(f.read(), path, "exec")
        except Exception:  # noqa: BLE001
            continue
        stmts: Set[int] = set()
        conds: Set[int] = set()
        stack = [top]
        while stack:
            co = stack.pop()
            doc_line = None
            for s, e, ln in co.co_lines():
                if ln is not None and ln > 0:
                    stmts.add(ln)
            for ins in dis.get_instructions(co):
                if ins.opname.startswith("POP_JUMP_IF") and ins.positions and ins.positions.lineno:
                    conds.add(ins.positions.lineno)
            for c in co.co_consts:
                if hasattr(c, "co_code"):
                    stack.append(c)
        out[name] = {"stmts": stmts, "conds": conds}
    return out


def ranges(nums) -> List[str]:
    out: List[str] = []
    a = b = None
    for n in sorted(nums):
        if a is None:
            a = b = n
        elif n == b + 1:
            b = n
        else:
            out.append(f"{a}-{b}" if b != a else f"{a}")
            a = b = n
    if a is not None:
        out.append(f"{a}-{b}" if b != a else f"{a}")
    return out


def summarize(repo: str, worker_reaches: List[dict], anchor_files: List[str]) -> dict:
    """Merge the workers' observations into the evidence block."""
    lines: Dict[str, Set[int]] = {}
    arms: Dict[str, Set[Tuple[int, int]]] = {}
    n = 0
    for r in worker_reaches:
        if not r:
            continue
        n += 1
        for f, v in r.get("lines", {}).items():
            lines.setdefault(f, set()).update(v)
        for f, v in r.get("arms", {}).items():
            arms.setdefault(f, set()).update((a, b) for a, b in v)
    if not n:
        return {"note": "code reach not observed (sys.monitoring unavailable or switched off)"}
    ex = existing(repo)
    files = {}
    anchors = {os.path.basename(a) for a in anchor_files}
    tot_s = tot_r = 0
    for name, info in ex.items():
        got = lines.get(name, set()) & info["stmts"]
        # def/class header lines execute at import, before the observer starts in some workers: count
        # only what the observer saw; imports happen after start(), so headers are seen too.
        tot_s += len(info["stmts"])
        tot_r += len(got)
        entry = {"statements": len(info["stmts"]), "reached": len(got)}
        a = arms.get(name, set())
        by_line: Dict[int, Set[int]] = {}
        for src, dst in a:
            by_line.setdefault(src, set()).add(dst)
        one_arm = sorted(ln for ln in info["conds"] if ln in by_line and len(by_line[ln]) == 1)
        never = sorted(ln for ln in info["conds"] if ln not in by_line and ln in got)
        entry["conditional_lines"] = len(info["conds"])
        entry["conditionals_with_both_arms_seen"] = sum(1 for ln in info["conds"] if len(by_line.get(ln, ())) >= 2)
        entry["anchor_of_this_property"] = name in anchors
        if True:
            entry["unreached_lines"] = ranges(info["stmts"] - got)
            entry["conditionals_one_arm_only"] = ranges(one_arm)
            if never:
                entry["conditionals_reached_but_no_branch_event"] = ranges(never)
        files[name] = entry
    return {"observer": "sys.monitoring LINE (global, disabled per location after the first hit) + BRANCH (local to "
                        "mosaik code objects) in every worker process; merged over the workers; 'statements' = "
                        "lines carrying code in the file as it is in the working tree now",
            "workers_observed": n, "statements_total": tot_s, "statements_reached": tot_r,
            "files": files}
